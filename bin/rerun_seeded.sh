#!/bin/bash
# usage: bin/rerun_seeded.sh [ids...]      (default: every directory under seeded/)
# Runs the quick check of its own property against every seeded change (scratch worktree + scratch copy of /verif per change,
# three at a time), and rewrites "caught_by" / "missed_by" of seeded/<id>/meta.json from what the check printed.
cd "$(dirname "$0")/.." || exit 2
OUT=${RERUN_OUT:-/tmp/rerun}; mkdir -p $OUT
ids=("$@"); [ ${#ids[@]} -eq 0 ] && ids=($(ls seeded | grep -E '^C[0-9]+-m[0-9]+$'))
for id in "${ids[@]}"; do
  p=${id%%-*}
  echo "TAILN=40 VERIF_WORKERS=5 bin/try_mutant_iso.sh /verif/seeded/$id/patch.diff rr$(echo $id | tr -d -) $p > $OUT/$id.log 2>&1"
done | xargs -P 3 -I{} sh -c '{}'
python3 - "$OUT" "${ids[@]}" <<'P'
import json, os, re, sys
out = sys.argv[1]
for id in sys.argv[2:]:
    prop = id.split('-')[0]
    log = open(os.path.join(out, id + ".log"), errors="replace").read()
    classes = []
    for m in re.finditer(r"^VIOLATION property=(\S+) replay=(\S+)", log, re.M):
        r = m.group(2)
        base = os.path.basename(r)
        if "components" in r or base.startswith("comp_") or r.startswith("build/comp_"):
            c = "component"
        elif base.startswith("crash_") and "seed" in base and not re.search(r"seed\d+_", base):
            c = prop + "/crash"
        else:
            c = prop + "/" + re.sub(r"_seed\d+\.json$", "", base)
            if re.search(r"seed\d+_", base) or not base.endswith(".json") or "_seed" not in base:
                c = "regression replay " + base
        if c not in classes: classes.append(c)
    ex = re.search(r"^exit=(\d+)", log, re.M)
    mp = os.path.join("seeded", id, "meta.json")
    meta = json.load(open(mp))
    old = meta.get("caught_by", [])
    if not old:      # changes of earlier rounds keep their annotated history; the outcome of this run is in "last_rerun"
        meta["caught_by"] = ["%s:%s" % (prop, c) for c in classes]
    meta["last_rerun"] = {"exit": ex.group(1) if ex else "?", "classes": classes}
    if not classes:
        meta["missed_by"] = sorted(set(meta.get("missed_by", []) + [prop + " (final machinery)"]))
    json.dump(meta, open(mp, "w"), indent=1)
    print(id, "exit", ex.group(1) if ex else "?", classes if classes else "MISSED", "" if classes else "(was: %s)" % old)
P
