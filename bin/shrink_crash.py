#!/usr/bin/env python3
"""Minimise a plan whose execution crashes the simulator process (sanitizer report / abort).
usage: shrink_crash.py <plan-or-replay.json> <out.json> [--prop Cxx]
ddmin over plan steps with one fresh process per test; the crash class is the first
'SUMMARY:' / 'Assertion' line with addresses removed."""
import json, os, re, subprocess, sys, tempfile

ROOT = os.path.dirname(os.path.dirname(os.path.abspath(__file__)))
SIMC = os.path.join(ROOT, "build", "simc")


def crash_class(stderr):
    for l in stderr.splitlines():
        if "SUMMARY:" in l or "Assertion" in l or "runtime error" in l or "what():" in l:
            l = re.sub(r"0x[0-9a-f]+", "", l)
            l = re.sub(r"\(/[^)]*\)", "", l)
            l = re.sub(r"==\d+==", "", l)
            l = re.sub(r":\d+", "", l)      # line numbers may move between builds
            return l.strip()[:200]
    return None


def run(plan):
    with tempfile.NamedTemporaryFile("w", suffix=".json", delete=False) as f:
        json.dump(plan, f)
        path = f.name
    try:
        r = subprocess.run([SIMC, "replay", "--file", path], stdout=subprocess.PIPE, stderr=subprocess.PIPE, text=True, timeout=120)
        if r.returncode in (0, 1):
            return None, r
        return crash_class(r.stderr) or ("rc %d" % r.returncode), r
    except subprocess.TimeoutExpired:
        return "timeout", None
    finally:
        os.unlink(path)


def shrink(plan, budget=250):
    cls, r = run(plan)
    if cls is None:
        return None, None, 0
    steps = plan["steps"]
    reruns = 1

    def test(cand):
        nonlocal reruns
        reruns += 1
        p = dict(plan)
        p["steps"] = cand
        c, _ = run(p)
        return c == cls

    n = 2
    while len(steps) >= 2 and reruns < budget:
        chunk = (len(steps) + n - 1) // n
        reduced = False
        for start in range(0, len(steps), chunk):
            cand = steps[:start] + steps[start + chunk:]
            if cand and test(cand):
                steps = cand
                n = max(n - 1, 2)
                reduced = True
                break
            if reruns >= budget:
                break
        if not reduced:
            if n >= len(steps):
                break
            n = min(len(steps), n * 2)
    i = 0
    while i < len(steps) and len(steps) > 1 and reruns < budget:
        cand = steps[:i] + steps[i + 1:]
        if test(cand):
            steps = cand
        else:
            i += 1
    out = dict(plan)
    out["steps"] = steps
    return out, cls, reruns


def main():
    src, dst = sys.argv[1], sys.argv[2]
    prop = sys.argv[sys.argv.index("--prop") + 1] if "--prop" in sys.argv else "C19"
    j = json.load(open(src))
    plan = j["plan"] if "plan" in j else j
    small, cls, reruns = shrink(plan)
    if small is None:
        print("does not crash")
        sys.exit(3)
    c2, r = run(small)
    if c2 != cls:
        print("minimised plan not reproducible")
        sys.exit(2)
    frames = [l.strip() for l in r.stderr.splitlines() if re.match(r"\s+#\d+ ", l) and ("/repo/" in l)][:6]
    rep = {"property": prop, "oracle": "crash", "signature": prop + "/crash", "seed": plan["seed"], "crash_class": cls,
           "detail": cls + " | " + " | ".join(re.sub(r"^#\d+ 0x[0-9a-f]+ in ", "", f)[-90:] for f in frames[:3]),
           "shrink_reruns": reruns, "original_steps": len(plan["steps"]), "steps": len(small["steps"]),
           "step_kinds": [s["k"] for s in small["steps"]], "plan": small}
    json.dump(rep, open(dst, "w"))
    print("SHRUNK crash %s steps=%d->%d reruns=%d out=%s" % (cls, len(plan["steps"]), len(small["steps"]), reruns, dst))


if __name__ == "__main__":
    main()
