#!/bin/bash
# usage: bin/mutant_build.sh <patch> <tag>  -> builds /tmp/mb_<tag>/simc from a scratch worktree /tmp/mw_<tag> with the patch applied
# (for investigating a seeded change by hand; remove both with bin/mutant_clean.sh <tag>)
P=$1; TAG=$2; WT=/tmp/mw_$TAG; B=/tmp/mb_$TAG
git -C /repo worktree remove --force $WT 2>/dev/null; rm -rf $B
git -C /repo worktree add -q --detach $WT HEAD || exit 2
git -C $WT apply "$P" || { echo "patch does not apply"; exit 2; }
mkdir -p $B; rsync -a --exclude 'client_*' --exclude 'comp_*' --exclude simc --exclude tmp /verif/build/ $B/
make -s -C /verif REPO=$WT B=$B $B/simc 2>&1 | tail -3
ls -la $B/simc
