#!/usr/bin/env python3
"""usage: keep_mutant.py <prop> <n> --title T --needs N --caught "C07:C07/recv_max" [--missed "..."]
copies patch + demo from /tmp/wt_<prop>/seeded and the confirmation summary from /tmp/confirm/<prop>_<n>"""
import argparse, json, os, shutil, subprocess
ap = argparse.ArgumentParser()
ap.add_argument("prop"); ap.add_argument("n")
ap.add_argument("--title", required=True); ap.add_argument("--needs", required=True)
ap.add_argument("--caught", default=""); ap.add_argument("--missed", default=""); ap.add_argument("--note", default="")
a = ap.parse_args()
src = os.environ.get("WT_PREFIX", "/tmp/wt_") + a.prop + "/seeded"
dst = "/verif/seeded/%s-m%s" % (a.prop, a.n)
os.makedirs(dst, exist_ok=True)
shutil.copy(os.path.join(src, "mutant%s.patch" % a.n), os.path.join(dst, "patch.diff"))
shutil.copy(os.path.join(src, "demo%s.cpp" % a.n), os.path.join(dst, "demo.cpp"))
summ = {}
p = "/tmp/confirm/%s_%s/summary.txt" % (a.prop, a.n)
if os.path.exists(p):
    for l in open(p):
        l = l.strip()
        if "=" in l:
            k, v = l.split("=", 1); summ[k] = v
        elif l:
            summ["suite_cases"] = l
files = subprocess.run(["git", "apply", "--numstat", os.path.join(dst, "patch.diff")], cwd="/repo", stdout=subprocess.PIPE, text=True).stdout.split()
meta = {
    "id": "%s-m%s" % (a.prop, a.n), "property": a.prop, "title": a.title,
    "files": [f for f in files if f.startswith("include/")],
    "needs_to_manifest": a.needs,
    "origin": "written by an independent sub-agent that was given only the property text and a scratch worktree of /repo (nothing from /verif)",
    "confirmed_by_me": {
        "how": "bin/confirm_mutant.sh in the scratch worktree: demo built and run on the unmodified tree (must exit 0) and with the patch (must fail); the repository's complete test suite (run_tests.cpp + all integration and unit files) built with the patch and run, load-sensitive timing cases re-run alone",
        "demo_exit_unmodified": summ.get("demo_clean_exit"), "demo_exit_with_patch": summ.get("demo_mut_exit"),
        "suite_exit_with_patch": summ.get("suite_exit"), "suite_cases": summ.get("suite_cases"),
        "flaky_cases_rerun_ok": summ.get("suite_flaky_rerun_ok", ""),
    },
    "demo_build": "g++ -std=c++17 -O1 -I<repo>/include -I<repo>/test/include demo.cpp -o demo -pthread",
    "checks_run": "git -C /repo apply patch.diff; bin/check <property> quick; git -C /repo checkout -- .",
    "caught_by": [c for c in a.caught.split(";") if c],
    "missed_by": [c for c in a.missed.split(";") if c],
    "note": a.note,
}
json.dump(meta, open(os.path.join(dst, "meta.json"), "w"), indent=1)
print("kept", dst, summ)
