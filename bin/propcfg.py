"""Per-property configuration of the checks (sweep sizes, non-triviality rule, components)."""
import json
import os
import subprocess
import time

EXPL = "exploration"

PROPS = {
    "C01": dict(level=EXPL, quick=30000, thorough=1000000,
                rule="seeded plans (API calls, broker traffic, faults) x schedules; a run is non-trivial when at least one QoS 1/2 publish completed successfully; distinct = distinct trace hash"),
    "C02": dict(level=EXPL, quick=30000, thorough=1000000,
                rule="seeded fault sequences followed by a healed suffix of 200 simulated s; non-trivial = at least one reconnect happened and at least one tracked operation completed; distinct = distinct trace hash"),
    "C03": dict(level=EXPL, quick=30000, thorough=1000000,
                rule="seeded plans with QoS 1/2 traffic and connection loss; non-trivial = a PUBLISH was retransmitted (DUP) or a PUBREL was observed; distinct = distinct trace hash"),
    "C04": dict(level=EXPL, quick=30000, thorough=1000000,
                rule="broker acts as QoS 0/1/2 sender with MQTT retransmission; non-trivial = at least one broker message reached async_receive; distinct = distinct trace hash"),
    "C05": dict(level=EXPL, quick=30000, thorough=1000000,
                rule="cancel()/async_disconnect/signals/destruction placed between handler steps; non-trivial = at least one operation completed with operation_aborted; distinct = distinct trace hash"),
    "C06": dict(level=EXPL, quick=30000, thorough=1000000, extra_sweeps=[("C06x", (32, 512))],
                rule="C06x runs: a QoS>0 publish stays unacknowledged across 2^15 .. 2^16 further publishes (serial-number wrap) before a reconnect; non-trivial = some connection carried >= 2 PUBLISH packets of different operations; distinct = distinct trace hash"),
    "C07": dict(level=EXPL, quick=30000, thorough=1000000,
                rule="non-trivial = the broker's in-flight counter reached the announced Receive Maximum on some connection; distinct = distinct trace hash"),
    "C08": dict(level=EXPL, quick=24000, thorough=800000, components=["pid_alloc"], extra_sweeps=[("C08x", (2, 8))],
                rule="system runs: non-trivial = >= 3 identifier-carrying packets seen; component: packet_id_allocator vs std::set model over seeded alloc/free histories (each history distinct by hash)"),
    "C09": dict(level=EXPL, quick=30000, thorough=1000000,
                rule="async_disconnect at seeded instants in every client state; non-trivial = async_disconnect was initiated on a running client; distinct = distinct trace hash"),
    "C10": dict(level=EXPL, quick=30000, thorough=1000000,
                rule="seeded configurations x handshake outcome sequences; non-trivial = >= 2 connection attempts; distinct = distinct trace hash"),
    "C11": dict(level=EXPL, quick=24000, thorough=800000, components=["async_mutex"], extra_sweeps=[("C11x", 0.4)],
                rule="system runs: non-trivial = >= 1 reconnect; C11x runs: detail::autoconnect_stream on its own under one reader and one serialised writer, with cancel()+close()+open() of the same stream object; component: async_mutex vs FIFO model under seeded lock/unlock/cancel schedules"),
    "C12": dict(level=EXPL, quick=24000, thorough=800000,
                rule="keep-alive configurations x traffic/silence patterns in exact virtual time; non-trivial = a PINGREQ was observed or a keep-alive timeout was judged; distinct = distinct trace hash"),
    "C13": dict(level=EXPL, quick=30000, thorough=1000000,
                rule="subscribe / reconnect / Session Present sequences; non-trivial = a reconnect ended with Session Present 0 after a successful subscribe; distinct = distinct trace hash"),
    "C14": dict(level=EXPL, quick=30000, thorough=1000000,
                rule="non-trivial = at least one SUBACK/UNSUBACK was delivered; distinct = distinct trace hash"),
    "C15": dict(level=EXPL, quick=30000, thorough=1000000, extra_sweeps=[("C08x", 2)],
                rule="capability sets x boundary requests; non-trivial = broker announced >= 1 limiting capability and >= 1 request was rejected locally or sent on a boundary; distinct = distinct trace hash"),
    "C17": dict(level=EXPL, quick=30000, thorough=1000000,
                rule="strict independent decoder on every byte the client writes; non-trivial = >= 3 packets from the client; distinct = distinct trace hash"),
    "C18": dict(level=EXPL, quick=30000, thorough=1000000,
                rule="reference-encoded broker packets (short forms, property mixes) under chunking; non-trivial = >= 3 packets to the client incl. one with properties; distinct = distinct trace hash"),
    "C19": dict(level=EXPL, quick=30000, thorough=1000000, extra_sweeps=[("C19diff", 0.25)],
                rule="hostile broker (mutations + random bytes) with ASan/UBSan, plus a chunking differential (same burst under 3 read chunkings must give the same logical trace); non-trivial = at least one hostile packet was delivered; distinct = distinct trace hash"),
    "C20": dict(level="fault_enumeration", quick=0, thorough=0, components=["rc_table"], exhaustive=True, enumerate_sweep=("C20x", 4608),
                rule="complete enumeration of 9 categories x 256 byte values: through to_reason_code in an ASan-guarded TU (2304 cases) and through one simulated exchange per (chunking, category, byte) (4608 runs); every case is distinct"),
}


def nontrivial(prop):
    f = lambda r, k: r["features"].get(k, 0)  # noqa: E731
    c = lambda r, k: r["counters"].get(k, 0)  # noqa: E731
    table = {
        "C01": lambda r: f(r, "pub_q12_success") > 0,
        "C02": lambda r: f(r, "reconnects") > 0 and f(r, "ops_success") > 0,
        "C03": lambda r: f(r, "dup_publishes") > 0 or f(r, "pubrels") > 0,
        "C04": lambda r: f(r, "msgs_received_by_app") > 0,
        "C05": lambda r: f(r, "ops_aborted") > 0,
        "C06": lambda r: f(r, "max_pub_ops_on_conn") >= 2,
        "C07": lambda r: f(r, "recv_max_reached") > 0,
        "C08": lambda r: f(r, "pid_packets") >= 3,
        "C09": lambda r: c(r, "fault.client_disconnect") > 0,
        "C10": lambda r: r["conns"] >= 2,
        "C11": lambda r: f(r, "reconnects") > 0,
        "C12": lambda r: f(r, "pingreqs") > 0 or f(r, "ka_judged") > 0,
        "C13": lambda r: f(r, "session_lost_with_subs") > 0,
        "C14": lambda r: f(r, "subacks_delivered") > 0,
        "C15": lambda r: f(r, "limiting_caps") > 0 and (f(r, "cap_rejections") > 0 or f(r, "pkts_from_client") >= 3),
        "C17": lambda r: f(r, "pkts_from_client") >= 3,
        "C18": lambda r: f(r, "pkts_to_client") >= 3 and f(r, "pkts_to_client_with_props") > 0,
        "C19": lambda r: f(r, "hostile_delivered") > 0,
        "C20": lambda r: True,
    }
    return table[prop]


def run_component(name, tier, seed, root):
    """components are separate small binaries built by the Makefile; each prints one JSON line"""
    exe = os.path.join(root, "build", "comp_" + name)
    n = {"pid_alloc": (100000, 2000000), "async_mutex": (200000, 5000000), "rc_table": (1, 1)}[name][0 if tier == "quick" else 1]
    t0 = time.time()
    outdir = os.path.join(root, "replays", "components")
    os.makedirs(outdir, exist_ok=True)
    r = subprocess.run([exe, str(seed), str(n), outdir], stdout=subprocess.PIPE, stderr=subprocess.PIPE, text=True)
    res = {"violations": [], "evidence": {}}
    line = None
    for ln in r.stdout.splitlines():
        if ln.startswith("{"):
            line = ln
    if line is None:
        if r.returncode == 77 or "AddressSanitizer" in r.stderr or "runtime error" in r.stderr:
            summary = [l for l in r.stderr.splitlines() if "ERROR" in l or "runtime error" in l or "SUMMARY" in l][:3]
            res["violations"].append({"component": name, "detail": "sanitizer report: " + " | ".join(summary), "replay": "build/comp_%s %d %d" % (name, seed, n)})
            res["evidence"] = {"evaluations": 0, "distinct_nontrivial": 0, "samples": []}
            return res
        res["broken"] = "no result line (rc %s): %s" % (r.returncode, r.stderr[-500:])
        return res
    j = json.loads(line)
    res["evidence"] = j.get("evidence", {})
    res["evidence"]["wall_s"] = round(time.time() - t0, 2)
    for v in j.get("violations", []):
        v["component"] = name
        res["violations"].append(v)
    return res
