#!/bin/bash
# usage: bin/try_mutant.sh <patch> <prop> [<prop> ...]   (applies the patch to /repo, runs the quick checks, reverts)
P=$1; shift
cd /repo || exit 2
if ! git diff --quiet; then echo "/repo has local changes"; exit 2; fi
git apply "$P" || { echo "patch does not apply"; exit 2; }
trap 'git -C /repo checkout -- . ; echo "[reverted]"' EXIT
cd /verif
for prop in "$@"; do
  echo "=== $prop"
  VERIF_SCALE=${VERIF_SCALE:-1} bin/check $prop quick 2>&1 | grep -v "^KNOWN-FINDING" | tail -${TAILN:-6} | cut -c1-400
  echo "exit=${PIPESTATUS[0]}"
done
