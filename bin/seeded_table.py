#!/usr/bin/env python3
"""writes seeded/README.md (table of seeded changes and which checks catch them) from seeded/*/meta.json"""
import glob, json, os
ROOT = os.path.dirname(os.path.dirname(os.path.abspath(__file__)))
rows = []
for p in sorted(glob.glob(os.path.join(ROOT, "seeded", "*", "meta.json"))):
    m = json.load(open(p))
    caught = "; ".join(m["caught_by"]) or "-"
    missed = "; ".join(m["missed_by"]) or ""
    lr = m.get("last_rerun")
    final = ("caught (%d class%s)" % (len(lr["classes"]), "" if len(lr["classes"]) == 1 else "es") if lr["classes"] else "MISSED") if lr else "not re-run"
    rows.append("| %s | %s | %s | %s | %s | %s |" % (m["id"], m["title"], m["needs_to_manifest"].replace("|", "/"), caught, missed or ("" if m["caught_by"] else "MISSED"), final))
out = ["# Seeded changes", "",
       "Each directory holds `patch.diff` (apply with `git -C /repo apply`), `demo.cpp` (fails with the patch, passes without) and `meta.json`.",
       "Every change was written by an independent sub-agent that saw only the property text, compiles, passes the repository's own test suite,",
       "and was confirmed by me in a scratch worktree (`bin/confirm_mutant.sh`). None is ever committed to /repo.",
       "`agent_prompt.tmpl` is the brief the sub-agents of waves 4 and 5 received (@PROP@ = the property's JSON text, @KINDS@ = what the change must need in order to manifest).", "",
       "The last column is the outcome of the quick check of the change's own property run with the final machinery (`bin/rerun_seeded.sh`), where that was done.", "",
       "| id | change | needs, to manifest | caught by (check: oracle) | missed by | final machinery |", "|---|---|---|---|---|---|"] + rows
open(os.path.join(ROOT, "seeded", "README.md"), "w").write("\n".join(out) + "\n")
print(len(rows), "rows")
