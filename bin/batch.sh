#!/bin/bash
# usage: bin/batch.sh FOCUS FROM COUNT [WORKERS]  -> runs workers in parallel, prints violation summary
F=$1; FROM=${2:-1}; N=${3:-1000}; W=${4:-16}
OUT=/tmp/batch_$F; rm -rf $OUT; mkdir -p $OUT
PER=$(( (N + W - 1) / W ))
for i in $(seq 0 $((W-1))); do
  ${SIMC:-/verif/build/simc} worker --focus $F --from $((FROM + i)) --count $PER --stride $W > $OUT/w$i.out 2>&1 &
done
wait
cat $OUT/w*.out | python3 -c "
import sys,json,collections
c=collections.Counter(); ex={}; n=0; starts=set(); dones=set()
for l in sys.stdin:
    if l.startswith('START'): starts.add(int(l.split()[1])); continue
    if not l.startswith('{'): continue
    r=json.loads(l); n+=1; dones.add(r['seed'])
    for v in r['violations']:
        k=v['prop']+'/'+v['oracle']; c[k]+=1; ex.setdefault(k,[]).append((r['seed'],v['detail'][:260]))
print('runs',n,'crashed seeds',sorted(starts-dones)[:10])
for k,m in c.most_common(): print(m,k,ex[k][0],[e[0] for e in ex[k][1:6]])
"
