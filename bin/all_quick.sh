#!/bin/bash
# usage: bin/all_quick.sh [scale]   - every registered quick check in turn (scaled), one summary line each
cd "$(dirname "$0")/.." || exit 2
for p in C01 C02 C03 C04 C05 C06 C07 C08 C09 C10 C11 C12 C13 C14 C15 C17 C18 C19 C20; do
  VERIF_SCALE=${1:-1} bin/check $p quick > build/tmp_$p.log 2>&1; rc=$?
  echo "$p exit=$rc $(grep -c '^KNOWN-FINDING' build/tmp_$p.log) known; $(grep '^VIOLATION' build/tmp_$p.log | head -3 | tr '\n' ' ') $(tail -1 build/tmp_$p.log)"
done
