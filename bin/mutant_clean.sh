#!/bin/bash
git -C /repo worktree remove --force /tmp/mw_$1; rm -rf /tmp/mb_$1
