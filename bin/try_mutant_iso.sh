#!/bin/bash
# usage: bin/try_mutant_iso.sh <patch> <tag> <prop> [<prop> ...]
# Like try_mutant.sh but touches neither /repo nor /verif/build: the patch is applied in a fresh scratch
# worktree of /repo's HEAD, /verif is copied to /tmp/mv_<tag> and built against that worktree (VERIF_REPO).
P=$1; TAG=$2; shift 2
WT=/tmp/mw_$TAG; V=/tmp/mv_$TAG
git -C /repo worktree remove --force $WT 2>/dev/null; rm -rf $V
git -C /repo worktree add -q --detach $WT HEAD || exit 2
trap 'git -C /repo worktree remove --force $WT; rm -rf $V; echo "[cleaned]"' EXIT
git -C $WT apply "$P" || { echo "patch does not apply"; exit 2; }
rsync -a --exclude .git --exclude evidence --exclude build/tmp --exclude seeded /verif/ $V/
rm -f $V/build/client_*.o $V/build/comp_* $V/build/simc
for prop in "$@"; do
  echo "=== $prop"
  VERIF_REPO=$WT VERIF_WORKERS=${VERIF_WORKERS:-8} $V/bin/check $prop quick 2>&1 | grep -v "^KNOWN-FINDING" | tail -${TAILN:-6} | cut -c1-400
  echo "exit=${PIPESTATUS[0]}"
done
