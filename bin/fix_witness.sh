#!/bin/bash
# usage: bin/fix_witness.sh            (needs build/ up to date; uses scratch dirs under /tmp, removed at the end)
# For every finding recorded as fixed: build the client TUs from the PARENT of its fix commit and run the
# committed replay file: it must show the violation (or crash) there, and be clean on /repo's HEAD.
# Writes fix_witness.md. Never touches /repo's working tree or /verif/build.
cd /verif || exit 2
OUT=fix_witness.md
echo "| finding | property | fix | replay on parent of fix | replay on HEAD |" > $OUT
echo "|---|---|---|---|---|" >> $OUT
python3 - <<'P' > /tmp/fw_list.txt
import json
for e in json.load(open('/verif/known_findings.json'))['findings']:
    if e['status']=='fixed': print(e['id'], e['property'], e['commit'], e['signature'], e['replay'].split()[0])
P
run_one() {
  id=$1; prop=$2; commit=$3; sig=$4; rp=$5
  WT=/tmp/fw_$id; B=/tmp/fwb_$id
  git -C /repo worktree remove --force $WT 2>/dev/null; rm -rf $B
  git -C /repo worktree add -q --detach $WT $commit^ || return
  mkdir -p $B; rsync -a --exclude 'client_*' --exclude 'comp_*' --exclude simc --exclude tmp /verif/build/ $B/
  if [[ $rp == *.json ]]; then
    make -s -C /verif REPO=$WT B=$B $B/simc > $B/make.log 2>&1 || { echo "| $id | $prop | $commit | BUILD FAILED | |" >> /verif/$OUT.$id; return; }
    extra=""; [ "$sig" = "C19/chunking_dependent" ] && extra="--focus C19diff"
    $B/simc replay --file /verif/$rp --only $prop $extra > $B/out.txt 2> $B/err.txt; rc=$?
    if [ $rc -eq 1 ]; then res="exit 1: $(grep -o "VIOLATION-DETAIL $prop [a-z_0-9]*" $B/out.txt | sort -u | head -3 | sed 's/VIOLATION-DETAIL //' | tr '\n' ';')";
    elif [ $rc -eq 0 ]; then res="exit 0 (NOT reproduced)";
    else res="process died (rc $rc): $(grep -m1 -o 'ERROR: AddressSanitizer: [a-z-]*\|terminate called[^\n]*\|runtime error[^\n]*' $B/err.txt | head -1)"; fi
    /verif/build/simc replay --file /verif/$rp --only $prop $extra > $B/out2.txt 2>/dev/null; rc2=$?
  else
    make -s -C /verif REPO=$WT B=$B $B/comp_rc_table > $B/make.log 2>&1
    $B/comp_rc_table 1 1 $B > $B/out.txt 2> $B/err.txt; rc=$?
    res="component exit $rc: $(grep -m1 -o 'ERROR: AddressSanitizer: [a-z-]*' $B/err.txt)"
    /verif/build/comp_rc_table 1 1 $B > $B/out2.txt 2>/dev/null; rc2=$?
  fi
  echo "| $id | $prop | $commit | $res | exit $rc2 |" > /verif/$OUT.$id
  git -C /repo worktree remove --force $WT; rm -rf $B
}
while read id prop commit sig rp; do run_one $id $prop $commit $sig $rp & done < /tmp/fw_list.txt
wait
for f in $(ls $OUT.* | sort -V); do cat $f >> $OUT; rm $f; done
cat $OUT
