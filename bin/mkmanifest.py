#!/usr/bin/env python3
"""Writes MANIFEST.json from the per-property table below (single source of truth for the interface)."""
import json, os, sys
ROOT = os.path.dirname(os.path.dirname(os.path.abspath(__file__)))

SIM = "deterministic simulation with fault injection: seeded search over plans x schedules x faults on the real client under a virtual clock/network/broker, history oracle"
CLAIMS = {
 "C01": ("exploration", "5 C01", "Every QoS 1/2 publish that reports success must have a content-exact PUBLISH received by the broker model and a final acknowledgement for its packet id emitted afterwards on the same connection and delivered before the handler ran, with equal reason code and properties. Checked on every run of the sweep; sampling, not proof.",
         "broker model + independent codec are the reference; legitimate-MQTT broker (no unsolicited/duplicate acks) outside the hostile profile", SIM),
 "C02": ("exploration", "5 C02", "Safety on completion codes at all times (no transport error, no unjustified operation_aborted), bounded liveness: every accepted, uncancelled operation completes within 200 simulated s after the last fault, same packet id on every retransmission and presence on the first fault-free connection.",
         "liveness bound B = 200 s of virtual time after Heal (+ injected stall time); client must be running", SIM + "; bounded liveness in the healed suffix"),
 "C03": ("exploration", "5 C03", "Wire history per tagged message across connections: no PUBLISH after its PUBREL, retransmissions byte-identical except DUP, first transmission DUP=0, DUP=1 when an earlier transmission's write was reported successful; no PUBLISH on a later connection once its successful PUBREC was read and processed (clause 1b).",
         "the transport model knows what each composed write reported to the client", SIM),
 "C05": ("exploration", "5 C05", "Completion counters per operation (never > 1, exactly 1 after teardown), re-entrancy flag, prompt completion after cancel()/async_disconnect (no virtual time may pass except behind an uncancellable resolve), io_context out of work after cancel()+drain and after destruction.",
         "operations are only initiated on a running client (documented precondition)", SIM),
 "C06": ("exploration", "5 C06", "Per connection the PUBLISH packets (QoS>0; all when no Receive Maximum was announced) arrive in initiation order (non-decreasing operation index incl. retransmissions), cancelled operations skipped. C06x runs: a QoS>0 publish stays unacknowledged while 2^15 .. 2^16 further publishes are initiated (serial-number wrap), then the connection is given up and the retransmissions must keep their order.", "message identity by tagged topic", SIM),
 "C07": ("exploration", "5 C07", "Broker-side counter of distinct QoS>0 packet ids received and not yet released by an emitted PUBACK/PUBCOMP/failing PUBREC never exceeds the Receive Maximum of that connection's CONNACK, checked at every receipt; progress half: a QoS>0 publish initiated on an established connection is not handed over only after 3 quiet seconds in which quota was available, no write was outstanding and nothing stalled; starvation is covered by C02's liveness.",
         "release counted at emission of the ack (earliest possible), so latency cannot cause a false alarm", SIM),
 "C08": ("exploration", "5 C08", "System: identifier never 0 and never shared by two outstanding operations of one service, pid_overrun only with 65535 outstanding. Component: packet_id_allocator against a std::set model over seeded allocate/free histories incl. full exhaustion, with shrinking.",
         "operation identity by tag, not by identifier", SIM + " + model-based component test of the allocator"),
 "C11": ("exploration", "5 C11", "C11x runs: detail::autoconnect_stream (lock, reconnect_op, read_op, write_op, endpoints) from /repo on its own under one reader and one serialised writer, with cancel()+close()+open() of the same stream object and graceful-shutdown requests (shutdown_op takes the connection lock too), judged strictly (never two attempts in progress, no resolve during an attempt, every trigger completes once, cancelled triggers are told so, reconnects after the last fault). Component: async_mutex against a FIFO model under seeded lock/unlock/per-waiter-cancel/cancel-all/destroy schedules stepped with poll_one (at most one holder, exactly-once completion, arrival order, cancelled waiter never granted). System: no connection attempt starts while an earlier unfinished attempt still has an operation pending.",
         "a cancellation signal is emitted at most once and only for an outstanding waiter", SIM + " + model-based component test of async_mutex"),
 "C14": ("exploration", "5 C14", "As C01 for SUBSCRIBE/UNSUBSCRIBE: success needs a content-exact request received and a SUBACK/UNSUBACK for its id emitted afterwards on that connection and delivered before the handler; handler reason codes equal the acknowledgement's, one per topic.",
         "legitimate broker outside hostile windows; malformed acks are generated as targeted hostile replies", SIM),
 "C17": ("exploration", "5 C17", "Strict independent MQTT 5 decoder applied to every byte the client writes in every run; PUBLISH/SUBSCRIBE/UNSUBSCRIBE/DISCONNECT fields compared with the supplied arguments, CONNECT fields with the configuration. The input space is sampled (boundary-biased), not enumerated.",
         "reference codec written from the specification", SIM),
 "C04": ("exploration", "5 C04", "Broker model acts as QoS 0/1/2 sender with MQTT retransmission on session resumption. Wire: ack type per QoS, no stray acks, PUBCOMP only after a delivered PUBREL; the first transmission of a QoS 1/2 PUBLISH and a PUBREL whose PUBREC travelled on the same connection are acknowledged within 10 s while the connection stays up and fault-free, and - without any timing assumption - a PUBREL that was read and dispatched is answered at the latest by the third later write of that connection. Application: content equality, QoS 2 at most once always and exactly once by the end of the healed suffix, QoS 1 at least once, per-QoS order of first deliveries. Eight known-finding classes (K1-K5, K8, K9: inbound exchanges interrupted by a connection loss; K12: two QoS 2 exchanges finishing in the wrong order) are reported as KNOWN-FINDING; every other class is a VIOLATION.",
         "lower bounds only for messages not in flight when the broker dropped the session and only when the receive channel of the running client could be drained at the end", SIM + "; bounded liveness"),
 "C09": ("exploration", "5 C09", "async_disconnect at seeded instants: completion within 5 s of initiation (+ injected stall), every post-handshake write begun after initiation carries exactly the DISCONNECT with the given reason code/properties (properties dropped iff larger than Maximum Packet Size) and nothing follows it on that connection, no write and no connection attempt after completion until async_run.",
         "attribution of network activity to a service object is skipped while two service generations are active", SIM),
 "C10": ("exploration", "5 C10", "First packet of every connection decodes strictly to the configured CONNECT (exactly one), nothing but AUTH is written before a successful CONNACK was delivered, a silent handshake is abandoned at exactly 5 s, an attempt whose authenticator fails (at client_initial, server_challenge or server_final, completing inline or posted) is abandoned and the next endpoint tried, the broker list is visited cyclically with further endpoints of a host first, no pause inside a pass, back-off 0.5-16.5 s (and 2^min(k,4) s +- 0.5 s for the k-th wrap) only at wrap-around.",
         "timing is judged only where no stall, no 5 s race and a single service generation make it definite", SIM + "; exact virtual-time comparisons"),
 "C12": ("exploration", "5 C12", "Every post-handshake read lives at most 1.5*K and is abandoned exactly then (never earlier; later only by injected stall); with K = 0 no read is abandoned and no PINGREQ is sent; on fault-free connections a PINGREQ is handed to the transport within K (+ 1 s slack + stall) of the CONNACK / the previous PINGREQ's write completion. Fault placements include broker bytes arriving within 1 ns of a pending client timer and the process being descheduled right after bytes arrived.",
         "K = Server Keep Alive of the connection's CONNACK, else the configured value", SIM + "; exact virtual-time comparisons"),
 "C13": ("exploration", "5 C13", "Per service generation: number of session_expired errors out of async_receive equals the number of successful CONNACKs with Session Present 0 that followed a successful subscribe (upper bound always, equality when the channel could be drained), and no message of the new session is delivered before the report.",
         "cancel()/async_disconnect/re-run start a new client life (the service forgets earlier subscriptions); ambiguous attributions make a generation indefinite", SIM),
 "C15": ("exploration", "5 C15", "Requests on the boundaries of the capabilities in the CONNACK held at initiation (taken from the client's CONNACK log, tied to the broker's bytes by C18, not from connack_properties()): a forbidden request completes at the same virtual instant with a documented error and nothing of it reaches the wire; an allowed request (e.g. size == limit) is never rejected with a capability error; every received PUBLISH, SUBSCRIBE, UNSUBSCRIBE and async_disconnect DISCONNECT respects the capabilities (incl. Maximum Packet Size) of its connection when its request was initiated under an identical capability set.",
         "boundary sizes computed with the independent reference encoder", SIM),
 "C18": ("exploration", "5 C18", "Reference-encoded broker packets (short forms, property mixes, repeated user properties, several subscription identifiers) under arbitrary chunking: CONNACK as reported by the logger and connack_properties(), async_receive results (C04), handler arguments (C01/C14), server DISCONNECT as logged, authenticator inputs equal what was encoded; a well-formed packet is never answered with DISCONNECT 0x81/0x82. The re-encode clause is a pure codec round trip and is not decided by this technique.",
         "scope: decode + surfacing through the API; not the encode-again clause", SIM),
 "C19": ("exploration", "5 C19", "Hostile broker (22 mutation kinds incl. structure-aware property mutations + random bytes, handshake and established phase, small client receive buffers) with the whole client under ASan/UBSan: no sanitizer report, abort or uncaught exception (worker death is attributed to the announced seed and replayed), no livelock at one virtual instant, a successful completion needs a well-formed acknowledgement in the byte stream as framed by the reference decoder, a message handed to async_receive is a well-formed PUBLISH of that stream (Protocol Errors that still parse are not counted as malformed), operations outstanding after the hostile window closed complete within the healed suffix, and the same burst (one transport segment, PINGRESP packets between the messages) under three read chunkings gives the same logical trace (chunking differential, 25 % of the runs). Four decoder/recognition leniencies are open known findings with classes of their own (K7, K10, K11, K13).",
         "malformed = cannot be parsed (incl. ill-formed UTF-8); duplicate/foreign properties and value constraints are Protocol Errors and outside the statement", SIM + "; sanitizers"),
 "C20": ("fault_enumeration", "5 C20", "Complete enumeration of 9 categories x 256 bytes through to_reason_code against tables written from MQTT 5, in a TU built with -fno-weak so the tables are ASan-guarded (out-of-table reads are reported).",
         "the sanitizer-instrumentation workaround is a complete enumeration of a finite domain, not simulation; stated as such", "complete enumeration (2304 cases) with ASan-guarded tables"),
}
NOT_YET = {}
NA = {"C16": "pure function of one input string/value: no schedule, clock, fault, I/O or shared state in it; deterministic simulation contributes nothing but a carrier for input enumeration (DESIGN.md section 9)"}

def main():
    props = [json.loads(l)["id"] for l in open(os.path.join(ROOT, "properties.jsonl"))]
    checks = []
    for p in props:
        if p not in CLAIMS: continue
        level, ref, text, note, tech = CLAIMS[p]
        checks.append({
            "property_id": p,
            "quick_cmd": "bin/check %s quick" % p,
            "thorough_cmd": "bin/check %s thorough" % p,
            "evidence_file": "evidence/%s.json" % p,
            "replay_cmd_template": "build/simc replay --file {path} --only %s" % p,
            "engine": "simc",
            "level_claimed": {"category": level, "text": text, "design_ref": "DESIGN.md section " + ref},
            "level_note": note,
            "technique": tech,
        })
    na = []
    for p in props:
        if p in CLAIMS: continue
        na.append({"property_id": p, "reason": NA.get(p) or NOT_YET.get(p) or "check not yet built in this revision of /verif (work in progress; see DESIGN.md)"})
    m = {
        "version": 1,
        "setup_cmd": "make -j16 all",
        "hooks": {
            "guard": "BOOST_MQTT5_VERIF",
            "enable": "-DBOOST_MQTT5_VERIF -DBOOST_MQTT5_VERIF_RESOLVER_TYPE=::sim::sim_resolver (client TUs only; see Makefile)",
            "baseline_off_cmd": "cmake --build /repo/_build && ctest --test-dir /repo/_build/test -j8 --timeout 900",
            "source_commits": ["4d143cb"],
            "add_only": True,
        },
        "engines": [{"name": "simc", "path": "build/simc", "serves_properties": [c["property_id"] for c in checks],
                     "kind_free_text": "deterministic discrete-event simulator: real client on a stepped io_context, virtual timers/clock/resolver/transport, broker reference model, seeded plans with attached faults, ddmin shrinking, replay files"}],
        "checks": checks,
        "not_applicable": na,
        "notes": "bin/check <id> <tier> honours VERIF_SEED, VERIF_WORKERS, VERIF_SCALE. Exit 2 = machinery broken (build failure, determinism gate, replay mismatch). known_findings.json lists genuine defects (all currently fixed in /repo by 'fix:' commits).",
    }
    json.dump(m, open(os.path.join(ROOT, "MANIFEST.json"), "w"), indent=1)
    print("MANIFEST.json:", len(checks), "checks,", len(na), "not claimed")

if __name__ == "__main__":
    main()
