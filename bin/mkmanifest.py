#!/usr/bin/env python3
"""Writes MANIFEST.json from the per-property table below (single source of truth for the interface)."""
import json, os, sys
ROOT = os.path.dirname(os.path.dirname(os.path.abspath(__file__)))

SIM = "deterministic simulation with fault injection: seeded search over plans x schedules x faults on the real client under a virtual clock/network/broker, history oracle"
CLAIMS = {
 "C01": ("exploration", "5 C01", "Every QoS 1/2 publish that reports success must have a content-exact PUBLISH received by the broker model and a final acknowledgement for its packet id emitted afterwards on the same connection and delivered before the handler ran, with equal reason code and properties. Checked on every run of the sweep; sampling, not proof.",
         "broker model + independent codec are the reference; legitimate-MQTT broker (no unsolicited/duplicate acks) outside the hostile profile", SIM),
 "C02": ("exploration", "5 C02", "Safety on completion codes at all times (no transport error, no unjustified operation_aborted), bounded liveness: every accepted, uncancelled operation completes within 200 simulated s after the last fault, same packet id on every retransmission and presence on the first fault-free connection.",
         "liveness bound B = 200 s of virtual time after Heal (+ injected stall time); client must be running", SIM + "; bounded liveness in the healed suffix"),
 "C03": ("exploration", "5 C03", "Wire history per tagged message across connections: no PUBLISH after its PUBREL, retransmissions byte-identical except DUP, first transmission DUP=0, DUP=1 when an earlier transmission's write was reported successful.",
         "the transport model knows what each composed write reported to the client", SIM),
 "C05": ("exploration", "5 C05", "Completion counters per operation (never > 1, exactly 1 after teardown), re-entrancy flag, prompt completion after cancel()/async_disconnect (no virtual time may pass except behind an uncancellable resolve), io_context out of work after cancel()+drain and after destruction.",
         "operations are only initiated on a running client (documented precondition)", SIM),
 "C06": ("exploration", "5 C06", "Per connection the PUBLISH packets (QoS>0; all when no Receive Maximum was announced) arrive in initiation order (non-decreasing operation index incl. retransmissions), cancelled operations skipped.", "message identity by tagged topic", SIM),
 "C07": ("exploration", "5 C07", "Broker-side counter of distinct QoS>0 packet ids received and not yet released by an emitted PUBACK/PUBCOMP/failing PUBREC never exceeds the Receive Maximum of that connection's CONNACK, checked at every receipt; starvation is covered by C02's liveness.",
         "release counted at emission of the ack (earliest possible), so latency cannot cause a false alarm", SIM),
 "C08": ("exploration", "5 C08", "System: identifier never 0 and never shared by two outstanding operations of one service, pid_overrun only with 65535 outstanding. Component: packet_id_allocator against a std::set model over seeded allocate/free histories incl. full exhaustion, with shrinking.",
         "operation identity by tag, not by identifier", SIM + " + model-based component test of the allocator"),
 "C11": ("exploration", "5 C11", "Component: async_mutex against a FIFO model under seeded lock/unlock/per-waiter-cancel/cancel-all/destroy schedules stepped with poll_one (at most one holder, exactly-once completion, arrival order, cancelled waiter never granted). System: no connection attempt starts while an earlier unfinished attempt still has an operation pending.",
         "a cancellation signal is emitted at most once and only for an outstanding waiter", SIM + " + model-based component test of async_mutex"),
 "C14": ("exploration", "5 C14", "As C01 for SUBSCRIBE/UNSUBSCRIBE: success needs a content-exact request received and a SUBACK/UNSUBACK for its id emitted afterwards on that connection and delivered before the handler; handler reason codes equal the acknowledgement's, one per topic.",
         "legitimate broker outside hostile windows; malformed acks are generated as targeted hostile replies", SIM),
 "C17": ("exploration", "5 C17", "Strict independent MQTT 5 decoder applied to every byte the client writes in every run; PUBLISH/SUBSCRIBE/UNSUBSCRIBE/CONNECT/DISCONNECT fields compared with the supplied arguments. The input space is sampled (boundary-biased), not enumerated.",
         "reference codec written from the specification", SIM),
 "C20": ("fault_enumeration", "5 C20", "Complete enumeration of 9 categories x 256 bytes through to_reason_code against tables written from MQTT 5, in a TU built with -fno-weak so the tables are ASan-guarded (out-of-table reads are reported).",
         "the sanitizer-instrumentation workaround is a complete enumeration of a finite domain, not simulation; stated as such", "complete enumeration (2304 cases) with ASan-guarded tables"),
}
NOT_YET = {}
NA = {"C16": "pure function of one input string/value: no schedule, clock, fault, I/O or shared state in it; deterministic simulation contributes nothing but a carrier for input enumeration (DESIGN.md section 9)"}

def main():
    props = [json.loads(l)["id"] for l in open(os.path.join(ROOT, "properties.jsonl"))]
    checks = []
    for p in props:
        if p not in CLAIMS: continue
        level, ref, text, note, tech = CLAIMS[p]
        checks.append({
            "property_id": p,
            "quick_cmd": "bin/check %s quick" % p,
            "thorough_cmd": "bin/check %s thorough" % p,
            "evidence_file": "evidence/%s.json" % p,
            "replay_cmd_template": "build/simc replay --file {path} --only %s" % p,
            "engine": "simc",
            "level_claimed": {"category": level, "text": text, "design_ref": "DESIGN.md section " + ref},
            "level_note": note,
            "technique": tech,
        })
    na = []
    for p in props:
        if p in CLAIMS: continue
        na.append({"property_id": p, "reason": NA.get(p) or NOT_YET.get(p) or "check not yet built in this revision of /verif (work in progress; see DESIGN.md)"})
    m = {
        "version": 1,
        "setup_cmd": "make -j16 all",
        "hooks": {
            "guard": "BOOST_MQTT5_VERIF",
            "enable": "-DBOOST_MQTT5_VERIF -DBOOST_MQTT5_VERIF_RESOLVER_TYPE=::sim::sim_resolver (client TUs only; see Makefile)",
            "baseline_off_cmd": "cmake --build /repo/_build && ctest --test-dir /repo/_build/test -j8 --timeout 900",
            "source_commits": ["4d143cb"],
            "add_only": True,
        },
        "engines": [{"name": "simc", "path": "build/simc", "serves_properties": [c["property_id"] for c in checks],
                     "kind_free_text": "deterministic discrete-event simulator: real client on a stepped io_context, virtual timers/clock/resolver/transport, broker reference model, seeded plans with attached faults, ddmin shrinking, replay files"}],
        "checks": checks,
        "not_applicable": na,
        "notes": "bin/check <id> <tier> honours VERIF_SEED, VERIF_WORKERS, VERIF_SCALE. Exit 2 = machinery broken (build failure, determinism gate, replay mismatch). known_findings.json lists genuine defects (all currently fixed in /repo by 'fix:' commits).",
    }
    json.dump(m, open(os.path.join(ROOT, "MANIFEST.json"), "w"), indent=1)
    print("MANIFEST.json:", len(checks), "checks,", len(na), "not claimed")

if __name__ == "__main__":
    main()
