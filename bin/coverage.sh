#!/bin/bash
# usage: bin/coverage.sh [runs-per-focus]   (not a registered check: a reach measurement)
# Builds the simulator with gcov instrumentation (no sanitizers, -O0) into build_cov/, runs every generator focus on a
# few thousand seeds and reports, per header of /repo/include/boost/mqtt5, the executable lines never reached by any
# simulated run. Output: build_cov/report.txt (summary) and build_cov/uncovered.txt (file:line: source).
N=${1:-3000}
cd "$(dirname "$0")/.." || exit 2
make -s -j16 B=build_cov SAN=--coverage OPT=-O0 build_cov/simc > build_cov.build.log 2>&1 || { tail build_cov.build.log; exit 2; }
rm -f build_cov.build.log
find build_cov -name '*.gcda' -delete
FOCI="C01 C02 C03 C04 C05 C06 C07 C08 C09 C10 C11 C12 C13 C14 C15 C17 C18 C19 C19diff C11x"
for f in $FOCI; do
  for w in 0 1 2 3; do
    build_cov/simc worker --focus $f --only $f --from $((20261004 + w)) --count $((N / 4)) --stride 4 > /dev/null 2>&1 &
  done
done
build_cov/simc worker --focus C20x --only C20 --from 0 --count 4608 --stride 1 > /dev/null 2>&1 &
build_cov/simc worker --focus C08x --only C08 --from 1 --count 2 --stride 1 > /dev/null 2>&1 &
wait
cd build_cov || exit 2
rm -rf gcov; mkdir gcov; cd gcov || exit 2
gcov -r -s /repo/include -o .. ../client_A.gcda > /dev/null 2>&1
gcov -p -o .. ../client_A.gcda > gcov.log 2>&1
cd ..
python3 - <<'EOF'
import glob, os, re
tot = {}
unc = []
for f in sorted(glob.glob('gcov/*mqtt5*.gcov')):
    src = None
    for line in open(f, errors='replace'):
        m = re.match(r'\s*([^:]+):\s*(\d+):(.*)', line)
        if not m:
            continue
        cnt, ln, text = m.group(1).strip(), int(m.group(2)), m.group(3)
        if ln == 0:
            if text.startswith('Source:'):
                src = text[7:]
            continue
        if src is None or '/boost/mqtt5/' not in src:
            continue
        key = src[src.index('boost/mqtt5/'):]
        if cnt == '-':
            continue
        t = tot.setdefault(key, [0, 0])
        t[0] += 1
        if cnt in ('#####', '=====') :
            unc.append((key, ln, text.rstrip()))
        else:
            t[1] += 1
seen = set(); out = []
for k, ln, text in unc:
    if (k, ln) in seen: continue
    seen.add((k, ln)); out.append('%s:%d:%s' % (k, ln, text))
open('uncovered.txt', 'w').write('\n'.join(out) + '\n')
with open('report.txt', 'w') as r:
    a = b = 0
    for k, (n, c) in sorted(tot.items()):
        r.write('%-60s %5d / %5d  %5.1f%%\n' % (k, c, n, 100.0 * c / max(n, 1)))
        a += n; b += c
    r.write('%-60s %5d / %5d  %5.1f%%\n' % ('TOTAL (executable lines, per template instantiation merged by gcov)', b, a, 100.0 * b / max(a, 1)))
print(open('report.txt').read())
EOF
