#!/usr/bin/env python3
"""usage: bin/regen_replay.py <finding id> [focus] [first seed] [max seeds]
Regenerates the committed replay file of a finding with the current harness.
 - fixed finding: the client TUs are built from the PARENT of its fix commit (scratch worktree and build dir under /tmp,
   removed afterwards); seeds are swept there until the signature shows (or the process dies, for crash findings),
   the plan is shrunk there and written to the finding's replay path.
 - open finding: same with /verif/build/simc (current tree).
Never touches /repo's working tree."""
import json, os, subprocess, sys, shutil
ROOT = os.path.dirname(os.path.dirname(os.path.abspath(__file__)))
fid = sys.argv[1]
kf = [e for e in json.load(open(os.path.join(ROOT, "known_findings.json")))["findings"] if e["id"] == fid][0]
prop, sig = kf["property"], kf["signature"]
focus = sys.argv[2] if len(sys.argv) > 2 else ("C19diff" if sig == "C19/chunking_dependent" else prop)
first = int(sys.argv[3]) if len(sys.argv) > 3 else 1
maxn = int(sys.argv[4]) if len(sys.argv) > 4 else 60000
out = os.path.join(ROOT, kf["replay"])
simc = os.path.join(ROOT, "build", "simc")
wt = bdir = None
if kf["status"] == "fixed":
    wt, bdir = "/tmp/rg_wt_" + fid, "/tmp/rg_b_" + fid
    subprocess.run(["git", "-C", "/repo", "worktree", "remove", "--force", wt], stderr=subprocess.DEVNULL)
    shutil.rmtree(bdir, ignore_errors=True)
    subprocess.run(["git", "-C", "/repo", "worktree", "add", "-q", "--detach", wt, kf["commit"] + "^"], check=True)
    os.makedirs(bdir)
    subprocess.run(["rsync", "-a", "--exclude", "client_*", "--exclude", "comp_*", "--exclude", "simc", "--exclude", "tmp", ROOT + "/build/", bdir + "/"], check=True)
    subprocess.run(["make", "-s", "-C", ROOT, "REPO=" + wt, "B=" + bdir, bdir + "/simc"], check=True, stdout=subprocess.DEVNULL)
    simc = bdir + "/simc"
crash = sig.endswith("/crash")
W = 12
found = None
try:
    seed = first
    while seed < first + maxn and found is None:
        n = 2400
        procs = []
        for i in range(W):
            o = open("/tmp/rg_%s_%d.out" % (fid, i), "w")
            procs.append((subprocess.Popen([simc, "worker", "--focus", focus, "--only", prop, "--from", str(seed + i), "--count", str(n // W), "--stride", str(W)],
                                           stdout=o, stderr=subprocess.DEVNULL), o))
        for p, o in procs:
            p.wait(); o.close()
        cands = []
        for i in range(W):
            last_start = None; done = set()
            for l in open("/tmp/rg_%s_%d.out" % (fid, i), errors="replace"):
                if l.startswith("START"): last_start = int(l.split()[1])
                elif l.startswith("{"):
                    r = json.loads(l); done.add(r["seed"])
                    if not crash and any(v["prop"] + "/" + v["oracle"] == sig for v in r["violations"]): cands.append((r["plan_steps"], r["seed"]))
            if crash and last_start is not None and last_start not in done: cands.append((0, last_start))
        if cands: found = sorted(cands)[0][1]
        seed += n
    if found is None:
        print("not found"); sys.exit(1)
    print("seed", found)
    if crash:
        gp = subprocess.run([simc, "gen", "--seed", str(found), "--focus", focus], stdout=subprocess.PIPE, text=True)
        rr = subprocess.run([simc, "replay", "--file", "/dev/stdin"], input=gp.stdout, stdout=subprocess.DEVNULL, stderr=subprocess.PIPE, text=True, errors="replace")
        summ = [l for l in rr.stderr.splitlines() if "ERROR" in l or "runtime error" in l or "terminate" in l][:2]
        print("fresh replay rc", rr.returncode, summ)
        if rr.returncode in (0, 1): print("crash does not reproduce in a fresh process"); sys.exit(1)
        json.dump({"property": prop, "oracle": "crash", "signature": sig, "seed": found, "focus": focus, "detail": " | ".join(summ)[:500], "plan": json.loads(gp.stdout)}, open(out, "w"))
    else:
        sr = subprocess.run([simc, "shrink", "--seed", str(found), "--focus", focus, "--sig", sig, "--out", out, "--budget", "300"], stdout=subprocess.PIPE, stderr=subprocess.PIPE, text=True, errors="replace")
        print("shrink rc", sr.returncode, sr.stdout[-200:])
    extra = ["--focus", "C19diff"] if focus == "C19diff" else []
    a = subprocess.run([simc, "replay", "--file", out, "--only", prop] + extra, stdout=subprocess.DEVNULL, stderr=subprocess.DEVNULL).returncode
    b = subprocess.run([os.path.join(ROOT, "build", "simc"), "replay", "--file", out, "--only", prop] + extra, stdout=subprocess.DEVNULL, stderr=subprocess.DEVNULL).returncode
    print("replay on %s: rc %d; on HEAD: rc %d; written %s" % ("parent of fix" if wt else "current tree", a, b, out))
finally:
    if wt:
        subprocess.run(["git", "-C", "/repo", "worktree", "remove", "--force", wt])
        shutil.rmtree(bdir, ignore_errors=True)
