#!/bin/bash
# usage: bin/confirm_mutant.sh <worktree> <n> <outdir>
# Confirms a seeded change independently: demo passes on the clean tree, fails with the patch;
# the repository's own test suite (all unit + integration files) still passes with the patch.
WT=$1; N=$2; OUT=$3
mkdir -p $OUT; cd $WT || exit 2
git checkout -q -- include
CXXF="-std=c++17 -O1 -I$WT/include -I$WT/test/include -pthread -w"
res() { echo "$1" >> $OUT/summary.txt; echo "$1"; }
: > $OUT/summary.txt
g++ $CXXF seeded/demo$N.cpp -o $OUT/demo_clean > $OUT/demo_clean.build.log 2>&1 || { res "demo_clean_build=FAIL"; exit 1; }
$OUT/demo_clean > $OUT/demo_clean.log 2>&1; res "demo_clean_exit=$?"
git apply seeded/mutant$N.patch || { res "patch_apply=FAIL"; exit 1; }
g++ $CXXF seeded/demo$N.cpp -o $OUT/demo_mut > $OUT/demo_mut.build.log 2>&1 || { res "demo_mut_build=FAIL"; git checkout -q -- include; exit 1; }
$OUT/demo_mut > $OUT/demo_mut.log 2>&1; res "demo_mut_exit=$?"
# full suite with the patch
mkdir -p $OUT/obj
ls test/src/run_tests.cpp test/integration/*.cpp test/unit/*.cpp | xargs -P ${JOBS:-14} -I{} sh -c 'o=$1/obj/$(echo {} | tr / _).o; g++ -std=c++17 -O1 -DBOOST_TEST_NO_MAIN=1 -I$2/include -I$2/test/include -w -c {} -o $o > $o.log 2>&1 || echo "COMPILE FAIL {}"' _ $OUT $WT > $OUT/suite.build.log 2>&1
if grep -q "COMPILE FAIL" $OUT/suite.build.log; then res "suite_build=FAIL"; git checkout -q -- include; exit 1; fi
g++ $OUT/obj/*.o -o $OUT/suite -pthread > $OUT/suite.link.log 2>&1 || { res "suite_link=FAIL"; git checkout -q -- include; exit 1; }
timeout 900 $OUT/suite --report_level=short > $OUT/suite.log 2>&1; rc=$?
if [ $rc -ne 0 ]; then
  # timing-scripted cases are load sensitive: re-run the failed cases alone
  failed=$(grep -o 'in "[^"]*"' $OUT/suite.log | sort -u | sed 's/in "//; s/"//')
  still=""
  for t in $failed; do ok=0; for k in 1 2 3; do $OUT/suite --run_test=$t > $OUT/rerun.log 2>&1 && { ok=1; break; }; done; [ $ok = 1 ] || still="$still $t"; done
  if [ -z "$failed" ]; then res "suite_died_or_hung=rc$rc"; elif [ -z "$still" ]; then rc=0; res "suite_flaky_rerun_ok=$(echo $failed | tr ' ' ',')"; else res "suite_failed=$still"; fi
fi
res "suite_exit=$rc"
grep -o "[0-9]* test cases out of [0-9]* passed" $OUT/suite.log | head -1 >> $OUT/summary.txt
git checkout -q -- include
rm -rf $OUT/obj $OUT/suite $OUT/demo_clean $OUT/demo_mut
