# Build of the simulator. Client TUs are compiled from /repo's working tree
# (dependency files make them stale when any included header under /repo changes).
REPO ?= /repo
B ?= build
CXX ?= g++
SAN ?= -fsanitize=address,undefined -fno-sanitize-recover=undefined
OPT ?= -O1 -g1
CXXFLAGS = -std=c++17 $(OPT) $(SAN) -fno-omit-frame-pointer -Isim -MMD -MP
CLIENTFLAGS = -DBOOST_MQTT5_VERIF -DBOOST_MQTT5_VERIF_RESOLVER_TYPE=::sim::sim_resolver -I$(REPO)/include
LDFLAGS = $(SAN) -Wl,--wrap=time -pthread

HARNESS = core/world core/sim_timer core/sim_resolver core/clock_interpose net/network net/stream \
          broker/ref_codec broker/broker app/plan_json app/gen app/driver app/oracles app/oracles2 app/oracles3 app/shrink app/diff app/main
OBJS = $(addprefix $(B)/,$(addsuffix .o,$(HARNESS))) $(B)/client_A.o $(B)/client_B.o

COMPS = $(B)/comp_rc_table $(B)/comp_pid_alloc $(B)/comp_async_mutex

all: $(B)/simc $(COMPS)

$(B)/simc: $(OBJS)
	$(CXX) -o $@ $(OBJS) $(LDFLAGS)

$(B)/client_%.o: sim/client_%.cpp
	@mkdir -p $(dir $@)
	$(CXX) $(CXXFLAGS) $(CLIENTFLAGS) -c $< -o $@ 2> $@.log || (grep -m20 -E "error|Error" $@.log | cut -c1-500; exit 1)

$(B)/%.o: sim/%.cpp
	@mkdir -p $(dir $@)
	$(CXX) $(CXXFLAGS) -c $< -o $@

# component checks: small stand-alone binaries over single headers of /repo
$(B)/comp_rc_table: sim/comp/rc_table.cpp
	@mkdir -p $(dir $@)
	$(CXX) -std=c++17 -O1 -g1 -fsanitize=address -fno-weak -w -I$(REPO)/include -MMD -MP -MF $@.d -MT $@ $< -o $@

$(B)/comp_pid_alloc: sim/comp/pid_alloc.cpp
	@mkdir -p $(dir $@)
	$(CXX) -std=c++17 -O1 -g1 $(SAN) -I$(REPO)/include -MMD -MP -MF $@.d -MT $@ $< -o $@

$(B)/comp_async_mutex: sim/comp/async_mutex.cpp
	@mkdir -p $(dir $@)
	$(CXX) -std=c++17 -O1 -g1 $(SAN) -I$(REPO)/include -MMD -MP -MF $@.d -MT $@ $< -o $@ -pthread

-include $(OBJS:.o=.d) $(COMPS:=.d)

clean:
	rm -rf $(B)
.PHONY: all clean
