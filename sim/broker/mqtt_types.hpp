// Generic MQTT 5 data model shared by the reference codec, the broker model, the
// workload driver and the oracles. Written from the MQTT 5.0 specification;
// shares no code with /repo.
#pragma once
#include <cstdint>
#include <optional>
#include <string>
#include <vector>

namespace mq {

enum PType : uint8_t {
    CONNECT = 1, CONNACK = 2, PUBLISH = 3, PUBACK = 4, PUBREC = 5, PUBREL = 6, PUBCOMP = 7,
    SUBSCRIBE = 8, SUBACK = 9, UNSUBSCRIBE = 10, UNSUBACK = 11, PINGREQ = 12, PINGRESP = 13,
    DISCONNECT = 14, AUTH = 15
};

const char* ptype_name(uint8_t t);

// property identifiers (MQTT 5 table 2-4)
enum PropId : uint8_t {
    P_PAYLOAD_FORMAT = 0x01, P_MSG_EXPIRY = 0x02, P_CONTENT_TYPE = 0x03, P_RESPONSE_TOPIC = 0x08,
    P_CORRELATION = 0x09, P_SUB_ID = 0x0b, P_SESSION_EXPIRY = 0x11, P_ASSIGNED_CID = 0x12,
    P_SERVER_KA = 0x13, P_AUTH_METHOD = 0x15, P_AUTH_DATA = 0x16, P_REQ_PROBLEM = 0x17,
    P_WILL_DELAY = 0x18, P_REQ_RESPONSE = 0x19, P_RESPONSE_INFO = 0x1a, P_SERVER_REF = 0x1c,
    P_REASON_STRING = 0x1f, P_RECV_MAX = 0x21, P_TOPIC_ALIAS_MAX = 0x22, P_TOPIC_ALIAS = 0x23,
    P_MAX_QOS = 0x24, P_RETAIN_AVAIL = 0x25, P_USER = 0x26, P_MAX_PACKET = 0x27,
    P_WILDCARD_AVAIL = 0x28, P_SUBID_AVAIL = 0x29, P_SHARED_AVAIL = 0x2a
};

enum class PKind { byte, u16, u32, varint, str, bin, pair, unknown };
PKind prop_kind(uint8_t id);
const char* prop_name(uint8_t id);

// which packet "slot" a property list belongs to (for admissibility)
enum class PSlot { connect, will, connack, publish, puback, pubrec, pubrel, pubcomp,
                   subscribe, suback, unsubscribe, unsuback, disconnect, auth };
bool prop_allowed(PSlot slot, uint8_t id);

struct Prop {
    uint8_t id = 0;
    uint32_t num = 0;        // byte/u16/u32/varint
    std::string s1, s2;      // str/bin in s1; pair in s1,s2
    bool operator==(const Prop& o) const { return id == o.id && num == o.num && s1 == o.s1 && s2 == o.s2; }
    bool operator<(const Prop& o) const {
        if (id != o.id) return id < o.id;
        if (num != o.num) return num < o.num;
        if (s1 != o.s1) return s1 < o.s1;
        return s2 < o.s2;
    }
};
using Props = std::vector<Prop>;

// equality as property *sets*: multiset equality, with User Properties and
// Subscription Identifiers compared in order
bool props_equal(const Props& a, const Props& b);
const Prop* find_prop(const Props& p, uint8_t id);
std::string props_str(const Props& p);

struct Will {
    std::string topic, payload;
    uint8_t qos = 0;
    bool retain = false;
    Props props;
};

struct SubTopic {
    std::string filter;
    uint8_t opts = 0;     // bits 0-1 qos, 2 no-local, 3 retain-as-published, 4-5 retain handling
    bool operator==(const SubTopic& o) const { return filter == o.filter && opts == o.opts; }
};

struct Packet {
    uint8_t type = 0;
    uint8_t flags = 0;          // low nibble of the fixed header
    std::string raw;            // complete encoded packet

    // CONNECT
    std::string client_id;
    std::optional<std::string> username, password;
    uint16_t keep_alive = 0;
    bool clean_start = false;
    std::optional<Will> will;

    // CONNACK
    bool session_present = false;

    // PUBLISH
    std::string topic, payload;
    uint8_t qos = 0;
    bool retain = false, dup = false;

    // acks / SUB / UNSUB / PUBLISH(QoS>0)
    uint16_t pid = 0;
    // CONNACK / acks / DISCONNECT / AUTH
    uint8_t rc = 0;
    bool rc_present = false;          // on the wire (short forms)
    bool props_present = false;       // property length present on the wire

    Props props;

    std::vector<SubTopic> subs;       // SUBSCRIBE
    std::vector<std::string> unsubs;  // UNSUBSCRIBE
    std::vector<uint8_t> rcs;         // SUBACK / UNSUBACK
};

std::string packet_str(const Packet& p);   // one-line human readable summary
std::string hex(const std::string& s, size_t max = 64);

} // namespace mq
