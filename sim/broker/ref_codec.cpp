// Independent MQTT 5 reference codec, written from the OASIS MQTT 5.0 specification
// (sections 1.5, 2.1, 2.2.2, 3.1 - 3.15). Shares no code with /repo.
#include "ref_codec.hpp"

#include <algorithm>
#include <cstdio>
#include <set>

namespace mq {

const char* ptype_name(uint8_t t) {
    static const char* n[] = {"RESERVED0", "CONNECT", "CONNACK", "PUBLISH", "PUBACK", "PUBREC", "PUBREL",
        "PUBCOMP", "SUBSCRIBE", "SUBACK", "UNSUBSCRIBE", "UNSUBACK", "PINGREQ", "PINGRESP", "DISCONNECT", "AUTH"};
    return t < 16 ? n[t] : "?";
}

PKind prop_kind(uint8_t id) {
    switch (id) {
    case P_PAYLOAD_FORMAT: case P_REQ_PROBLEM: case P_REQ_RESPONSE: case P_MAX_QOS: case P_RETAIN_AVAIL:
    case P_WILDCARD_AVAIL: case P_SUBID_AVAIL: case P_SHARED_AVAIL:
        return PKind::byte;
    case P_SERVER_KA: case P_RECV_MAX: case P_TOPIC_ALIAS_MAX: case P_TOPIC_ALIAS:
        return PKind::u16;
    case P_MSG_EXPIRY: case P_SESSION_EXPIRY: case P_WILL_DELAY: case P_MAX_PACKET:
        return PKind::u32;
    case P_SUB_ID:
        return PKind::varint;
    case P_CONTENT_TYPE: case P_RESPONSE_TOPIC: case P_ASSIGNED_CID: case P_AUTH_METHOD:
    case P_RESPONSE_INFO: case P_SERVER_REF: case P_REASON_STRING:
        return PKind::str;
    case P_CORRELATION: case P_AUTH_DATA:
        return PKind::bin;
    case P_USER:
        return PKind::pair;
    default:
        return PKind::unknown;
    }
}

const char* prop_name(uint8_t id) {
    switch (id) {
    case P_PAYLOAD_FORMAT: return "payload_format"; case P_MSG_EXPIRY: return "msg_expiry";
    case P_CONTENT_TYPE: return "content_type"; case P_RESPONSE_TOPIC: return "response_topic";
    case P_CORRELATION: return "correlation"; case P_SUB_ID: return "sub_id";
    case P_SESSION_EXPIRY: return "session_expiry"; case P_ASSIGNED_CID: return "assigned_cid";
    case P_SERVER_KA: return "server_ka"; case P_AUTH_METHOD: return "auth_method";
    case P_AUTH_DATA: return "auth_data"; case P_REQ_PROBLEM: return "req_problem";
    case P_WILL_DELAY: return "will_delay"; case P_REQ_RESPONSE: return "req_response";
    case P_RESPONSE_INFO: return "response_info"; case P_SERVER_REF: return "server_ref";
    case P_REASON_STRING: return "reason_string"; case P_RECV_MAX: return "recv_max";
    case P_TOPIC_ALIAS_MAX: return "topic_alias_max"; case P_TOPIC_ALIAS: return "topic_alias";
    case P_MAX_QOS: return "max_qos"; case P_RETAIN_AVAIL: return "retain_avail";
    case P_USER: return "user"; case P_MAX_PACKET: return "max_packet";
    case P_WILDCARD_AVAIL: return "wildcard_avail"; case P_SUBID_AVAIL: return "subid_avail";
    case P_SHARED_AVAIL: return "shared_avail";
    default: return "unknown";
    }
}

// MQTT 5 table 2-4 "Properties": packet types in which each property may appear
bool prop_allowed(PSlot s, uint8_t id) {
    using S = PSlot;
    auto in = [s](std::initializer_list<S> l) { return std::find(l.begin(), l.end(), s) != l.end(); };
    switch (id) {
    case P_PAYLOAD_FORMAT: case P_MSG_EXPIRY: case P_CONTENT_TYPE: case P_RESPONSE_TOPIC: case P_CORRELATION:
        return in({S::publish, S::will});
    case P_SUB_ID: return in({S::publish, S::subscribe});
    case P_SESSION_EXPIRY: return in({S::connect, S::connack, S::disconnect});
    case P_ASSIGNED_CID: case P_SERVER_KA: case P_RESPONSE_INFO: case P_MAX_QOS: case P_RETAIN_AVAIL:
    case P_WILDCARD_AVAIL: case P_SUBID_AVAIL: case P_SHARED_AVAIL:
        return in({S::connack});
    case P_AUTH_METHOD: case P_AUTH_DATA: return in({S::connect, S::connack, S::auth});
    case P_REQ_PROBLEM: case P_REQ_RESPONSE: return in({S::connect});
    case P_WILL_DELAY: return in({S::will});
    case P_SERVER_REF: return in({S::connack, S::disconnect});
    case P_REASON_STRING:
        return in({S::connack, S::puback, S::pubrec, S::pubrel, S::pubcomp, S::suback, S::unsuback,
                   S::disconnect, S::auth});
    case P_RECV_MAX: case P_TOPIC_ALIAS_MAX: case P_MAX_PACKET: return in({S::connect, S::connack});
    case P_TOPIC_ALIAS: return in({S::publish});
    case P_USER: return true;
    default: return false;
    }
}

const Prop* find_prop(const Props& p, uint8_t id) {
    for (auto& x : p) if (x.id == id) return &x;
    return nullptr;
}

bool props_equal(const Props& a, const Props& b) {
    if (a.size() != b.size()) return false;
    // ordered sub-sequences for repeatable properties
    auto seq = [](const Props& p, uint8_t id) {
        Props r; for (auto& x : p) if (x.id == id) r.push_back(x); return r;
    };
    if (!(seq(a, P_USER) == seq(b, P_USER))) return false;
    if (!(seq(a, P_SUB_ID) == seq(b, P_SUB_ID))) return false;
    Props sa = a, sb = b;
    std::sort(sa.begin(), sa.end()); std::sort(sb.begin(), sb.end());
    return sa == sb;
}

std::string hex(const std::string& s, size_t max) {
    std::string r; char b[4];
    for (size_t i = 0; i < s.size() && i < max; ++i) { snprintf(b, sizeof b, "%02x", (unsigned char)s[i]); r += b; }
    if (s.size() > max) r += "..(" + std::to_string(s.size()) + ")";
    return r;
}

static std::string printable(const std::string& s, size_t max = 40) {
    std::string r;
    for (size_t i = 0; i < s.size() && i < max; ++i) {
        unsigned char c = s[i];
        if (c >= 32 && c < 127 && c != '"' && c != '\\') r += (char)c; else { char b[8]; snprintf(b, sizeof b, "\\x%02x", c); r += b; }
    }
    if (s.size() > max) r += "..(" + std::to_string(s.size()) + ")";
    return r;
}

std::string props_str(const Props& p) {
    std::string r = "{";
    for (auto& x : p) {
        if (r.size() > 1) r += ",";
        r += prop_name(x.id); r += "=";
        switch (prop_kind(x.id)) {
        case PKind::byte: case PKind::u16: case PKind::u32: case PKind::varint: r += std::to_string(x.num); break;
        case PKind::pair: r += printable(x.s1, 16) + ":" + printable(x.s2, 16); break;
        default: r += printable(x.s1, 24);
        }
    }
    return r + "}";
}

std::string packet_str(const Packet& p) {
    std::string r = ptype_name(p.type);
    switch (p.type) {
    case CONNECT: r += " cid=" + printable(p.client_id) + " ka=" + std::to_string(p.keep_alive) + " cs=" + std::to_string(p.clean_start); break;
    case CONNACK: r += " sp=" + std::to_string(p.session_present) + " rc=" + std::to_string(p.rc); break;
    case PUBLISH: r += " pid=" + std::to_string(p.pid) + " q" + std::to_string(p.qos) + (p.dup ? " DUP" : "") + (p.retain ? " RET" : "") +
                  " t=" + printable(p.topic, 24) + " pl=" + printable(p.payload, 24); break;
    case PUBACK: case PUBREC: case PUBREL: case PUBCOMP: r += " pid=" + std::to_string(p.pid) + " rc=" + std::to_string(p.rc); break;
    case SUBSCRIBE: r += " pid=" + std::to_string(p.pid); for (auto& s : p.subs) r += " " + printable(s.filter, 24) + "/" + std::to_string(s.opts); break;
    case UNSUBSCRIBE: r += " pid=" + std::to_string(p.pid); for (auto& s : p.unsubs) r += " " + printable(s, 24); break;
    case SUBACK: case UNSUBACK: r += " pid=" + std::to_string(p.pid) + " rcs="; for (auto c : p.rcs) r += std::to_string(c) + ","; break;
    case DISCONNECT: case AUTH: r += " rc=" + std::to_string(p.rc); break;
    default: break;
    }
    if (!p.props.empty()) r += " " + props_str(p.props);
    return r;
}

// ------------------------------------------------------------------ encoding

std::string encode_varint(uint32_t v) {
    std::string r;
    do { uint8_t b = v % 128; v /= 128; if (v) b |= 0x80; r.push_back((char)b); } while (v);
    return r;
}
static void put_u16(std::string& r, uint32_t v) { r.push_back((char)((v >> 8) & 0xff)); r.push_back((char)(v & 0xff)); }
static void put_u32(std::string& r, uint32_t v) { put_u16(r, v >> 16); put_u16(r, v & 0xffff); }
static void put_str(std::string& r, const std::string& s) { put_u16(r, (uint32_t)s.size()); r += s; }

static std::string props_body(const Props& p) {
    std::string r;
    for (auto& x : p) {
        r.push_back((char)x.id);
        switch (prop_kind(x.id)) {
        case PKind::byte: r.push_back((char)x.num); break;
        case PKind::u16: put_u16(r, x.num); break;
        case PKind::u32: put_u32(r, x.num); break;
        case PKind::varint: r += encode_varint(x.num); break;
        case PKind::str: case PKind::bin: put_str(r, x.s1); break;
        case PKind::pair: put_str(r, x.s1); put_str(r, x.s2); break;
        case PKind::unknown: break;
        }
    }
    return r;
}

std::string encode_props(const Props& p) {
    std::string b = props_body(p);
    return encode_varint((uint32_t)b.size()) + b;
}

static std::string finish(uint8_t type, uint8_t flags, const std::string& body) {
    std::string r;
    r.push_back((char)((type << 4) | (flags & 0x0f)));
    r += encode_varint((uint32_t)body.size());
    r += body;
    return r;
}

std::string encode(const Packet& p, const EncOpts& o) {
    std::string b;
    switch (p.type) {
    case CONNECT: {
        put_str(b, "MQTT"); b.push_back(5);
        uint8_t fl = 0;
        if (p.clean_start) fl |= 0x02;
        if (p.will) { fl |= 0x04; fl |= (p.will->qos & 3) << 3; if (p.will->retain) fl |= 0x20; }
        if (p.password) fl |= 0x40;
        if (p.username) fl |= 0x80;
        b.push_back((char)fl);
        put_u16(b, p.keep_alive);
        b += encode_props(p.props);
        put_str(b, p.client_id);
        if (p.will) { b += encode_props(p.will->props); put_str(b, p.will->topic); put_str(b, p.will->payload); }
        if (p.username) put_str(b, *p.username);
        if (p.password) put_str(b, *p.password);
        return finish(CONNECT, 0, b);
    }
    case CONNACK:
        b.push_back((char)(p.session_present ? 1 : 0));
        b.push_back((char)p.rc);
        b += encode_props(p.props);       // property length is mandatory in CONNACK
        return finish(CONNACK, 0, b);
    case PUBLISH: {
        put_str(b, p.topic);
        if (p.qos) put_u16(b, p.pid);
        b += encode_props(p.props);
        b += p.payload;
        uint8_t fl = (p.dup ? 8 : 0) | ((p.qos & 3) << 1) | (p.retain ? 1 : 0);
        return finish(PUBLISH, fl, b);
    }
    case PUBACK: case PUBREC: case PUBREL: case PUBCOMP: {
        put_u16(b, p.pid);
        bool can_short_rc = p.rc == 0 && p.props.empty();
        if (!(o.short_rc && can_short_rc)) {
            b.push_back((char)p.rc);
            if (!(o.short_props && p.props.empty())) b += encode_props(p.props);
        }
        return finish(p.type, p.type == PUBREL ? 2 : 0, b);
    }
    case SUBSCRIBE:
        put_u16(b, p.pid);
        b += encode_props(p.props);
        for (auto& s : p.subs) { put_str(b, s.filter); b.push_back((char)s.opts); }
        return finish(SUBSCRIBE, 2, b);
    case UNSUBSCRIBE:
        put_u16(b, p.pid);
        b += encode_props(p.props);
        for (auto& s : p.unsubs) put_str(b, s);
        return finish(UNSUBSCRIBE, 2, b);
    case SUBACK: case UNSUBACK:
        put_u16(b, p.pid);
        b += encode_props(p.props);
        for (auto c : p.rcs) b.push_back((char)c);
        return finish(p.type, 0, b);
    case PINGREQ: case PINGRESP:
        return finish(p.type, 0, b);
    case DISCONNECT: case AUTH: {
        bool can_short_rc = p.rc == 0 && p.props.empty();
        if (!(o.short_rc && can_short_rc)) {
            b.push_back((char)p.rc);
            if (!(o.short_props && p.props.empty())) b += encode_props(p.props);
        }
        return finish(p.type, 0, b);
    }
    default:
        return finish(p.type, p.flags, b);
    }
}

// ------------------------------------------------------------------ decoding

bool utf8_ok(const std::string& s) {
    size_t i = 0, n = s.size();
    while (i < n) {
        unsigned char c = s[i];
        uint32_t cp; int len;
        if (c < 0x80) { cp = c; len = 1; }
        else if ((c & 0xe0) == 0xc0) { cp = c & 0x1f; len = 2; }
        else if ((c & 0xf0) == 0xe0) { cp = c & 0x0f; len = 3; }
        else if ((c & 0xf8) == 0xf0) { cp = c & 0x07; len = 4; }
        else return false;
        if (i + len > n) return false;
        for (int k = 1; k < len; ++k) {
            unsigned char d = s[i + k];
            if ((d & 0xc0) != 0x80) return false;
            cp = (cp << 6) | (d & 0x3f);
        }
        if (len == 2 && cp < 0x80) return false;
        if (len == 3 && cp < 0x800) return false;
        if (len == 4 && (cp < 0x10000 || cp > 0x10ffff)) return false;
        if (cp >= 0xd800 && cp <= 0xdfff) return false;
        if (cp == 0) return false;
        i += len;
    }
    return true;
}

thread_local bool g_lenient_protocol_errors = false;
thread_local bool g_lenient_utf8 = false;

namespace {
struct Rd {
    const std::string& s; size_t i, end; std::string err;
    Rd(const std::string& str, size_t b, size_t e) : s(str), i(b), end(e) {}
    bool ok() const { return err.empty(); }
    size_t left() const { return end - i; }
    uint8_t u8() { if (left() < 1) { fail("truncated u8"); return 0; } return (uint8_t)s[i++]; }
    uint16_t u16() { if (left() < 2) { fail("truncated u16"); return 0; } uint16_t v = ((uint8_t)s[i] << 8) | (uint8_t)s[i + 1]; i += 2; return v; }
    uint32_t u32() { uint32_t a = u16(); uint32_t b = u16(); return (a << 16) | b; }
    uint32_t varint() {
        uint32_t v = 0; int shift = 0;
        for (int k = 0; k < 4; ++k) {
            if (left() < 1) { fail("truncated varint"); return 0; }
            uint8_t b = (uint8_t)s[i++];
            v |= (uint32_t)(b & 0x7f) << shift; shift += 7;
            if (!(b & 0x80)) {
                if (k > 0 && b == 0) fail("non-minimal varint");
                return v;
            }
        }
        fail("varint longer than 4 bytes"); return 0;
    }
    std::string bin() { uint16_t n = u16(); if (!ok()) return {}; if (left() < n) { fail("truncated string/binary"); return {}; } std::string r = s.substr(i, n); i += n; return r; }
    std::string str() { std::string r = bin(); if (ok() && !g_lenient_utf8 && !utf8_ok(r)) fail("ill-formed UTF-8 string"); return r; }
    void fail(const std::string& e) { if (err.empty()) err = e; }
};

// MQTT 5 distinguishes a Malformed Packet (cannot be parsed) from a Protocol Error (parsed, but contains data that is
// not allowed: a property twice, a property of another packet type). decode_lenient() accepts the latter.

std::string read_props(Rd& r, PSlot slot, Props& out) {
    uint32_t len = r.varint();
    if (!r.ok()) return r.err;
    if (len > r.left()) return "property length beyond packet";
    Rd p(r.s, r.i, r.i + len);
    std::set<uint8_t> seen;
    while (p.left() > 0) {
        Prop x; x.id = p.u8();
        PKind k = prop_kind(x.id);
        if (k == PKind::unknown) return "unknown property id " + std::to_string(x.id);
        if (!g_lenient_protocol_errors && !prop_allowed(slot, x.id)) return std::string("property ") + prop_name(x.id) + " not allowed in this packet";
        bool repeatable = x.id == P_USER || (x.id == P_SUB_ID && slot == PSlot::publish);
        if (!repeatable && !seen.insert(x.id).second && !g_lenient_protocol_errors) return std::string("duplicate property ") + prop_name(x.id);
        switch (k) {
        case PKind::byte: x.num = p.u8(); break;
        case PKind::u16: x.num = p.u16(); break;
        case PKind::u32: x.num = p.u32(); break;
        case PKind::varint: x.num = p.varint(); break;
        case PKind::str: x.s1 = p.str(); break;
        case PKind::bin: x.s1 = p.bin(); break;
        case PKind::pair: x.s1 = p.str(); x.s2 = p.str(); break;
        default: break;
        }
        if (!p.ok()) return "property " + std::string(prop_name(x.id)) + ": " + p.err;
        // value constraints
        if (g_lenient_protocol_errors) { out.push_back(std::move(x)); continue; }   // value constraints are Protocol Errors, the packet parses
        if (x.id == P_SUB_ID && (x.num == 0)) return "subscription identifier 0";
        if (x.id == P_TOPIC_ALIAS && x.num == 0) return "topic alias 0";
        if ((x.id == P_PAYLOAD_FORMAT || x.id == P_REQ_PROBLEM || x.id == P_REQ_RESPONSE || x.id == P_RETAIN_AVAIL ||
             x.id == P_WILDCARD_AVAIL || x.id == P_SUBID_AVAIL || x.id == P_SHARED_AVAIL || x.id == P_MAX_QOS) && x.num > 1)
            return std::string("property ") + prop_name(x.id) + " value > 1";
        if (x.id == P_RECV_MAX && x.num == 0) return "receive maximum 0";
        if (x.id == P_MAX_PACKET && x.num == 0) return "maximum packet size 0";
        out.push_back(std::move(x));
    }
    r.i += len;
    return {};
}
} // namespace

std::string decode_strict(const std::string& raw, Packet& out, bool from_server);
std::string decode_lenient(const std::string& raw, Packet& out, bool from_server, bool utf8_too) {
    g_lenient_protocol_errors = true; g_lenient_utf8 = utf8_too;
    std::string e = decode_strict(raw, out, from_server);
    g_lenient_protocol_errors = false; g_lenient_utf8 = false;
    return e;
}

std::string decode_strict(const std::string& raw, Packet& out, bool from_server) {
    out = Packet{};
    out.raw = raw;
    if (raw.size() < 2) return "packet shorter than 2 bytes";
    Rd h(raw, 0, raw.size());
    uint8_t b0 = h.u8();
    out.type = b0 >> 4; out.flags = b0 & 0x0f;
    uint32_t rl = h.varint();
    if (!h.ok()) return "fixed header: " + h.err;
    if (rl != h.left()) return "Remaining Length " + std::to_string(rl) + " != body size " + std::to_string(h.left());
    Rd r(raw, h.i, raw.size());
    auto need_flags = [&](uint8_t f) -> std::string {
        if (out.flags != f) return std::string("fixed-header flags ") + std::to_string(out.flags) + " for " + ptype_name(out.type);
        return {};
    };
    std::string e;
    if (from_server && (out.type == CONNECT || out.type == SUBSCRIBE || out.type == UNSUBSCRIBE || out.type == PINGREQ))
        return std::string("server sent client-only packet ") + ptype_name(out.type);
    switch (out.type) {
    case CONNECT: {
        if (!(e = need_flags(0)).empty()) return e;
        std::string name = r.bin();
        if (name != "MQTT") return "protocol name";
        if (r.u8() != 5) return "protocol version";
        uint8_t fl = r.u8();
        if (fl & 1) return "CONNECT reserved flag set";
        out.clean_start = fl & 2;
        bool will = fl & 4; uint8_t wq = (fl >> 3) & 3; bool wr = fl & 0x20;
        if (!will && (wq || wr)) return "will qos/retain without will flag";
        if (wq == 3) return "will qos 3";
        out.keep_alive = r.u16();
        if (!r.ok()) return r.err;
        if (!(e = read_props(r, PSlot::connect, out.props)).empty()) return "CONNECT properties: " + e;
        out.client_id = r.str();
        if (will) {
            Will w; w.qos = wq; w.retain = wr;
            if (!(e = read_props(r, PSlot::will, w.props)).empty()) return "Will properties: " + e;
            w.topic = r.str(); w.payload = r.bin();
            out.will = std::move(w);
        }
        if (fl & 0x80) out.username = r.str();
        if (fl & 0x40) out.password = r.bin();
        break;
    }
    case PUBLISH: {
        out.dup = out.flags & 8; out.qos = (out.flags >> 1) & 3; out.retain = out.flags & 1;
        if (out.qos == 3) return "PUBLISH QoS 3";
        if (out.qos == 0 && out.dup && !g_lenient_protocol_errors) return "PUBLISH QoS 0 with DUP";
        out.topic = r.str();
        if (!r.ok()) return r.err;
        if (!g_lenient_protocol_errors && out.topic.find_first_of("#+") != std::string::npos) return "PUBLISH topic name contains wildcard";
        if (out.qos) { out.pid = r.u16(); if (r.ok() && out.pid == 0 && !g_lenient_protocol_errors) return "packet identifier 0"; }
        if (!r.ok()) return r.err;
        if (!(e = read_props(r, PSlot::publish, out.props)).empty()) return "PUBLISH properties: " + e;
        if (!from_server && find_prop(out.props, P_SUB_ID)) return "client PUBLISH carries Subscription Identifier";
        if (!g_lenient_protocol_errors && out.topic.empty() && !find_prop(out.props, P_TOPIC_ALIAS)) return "empty topic without alias";
        out.payload = raw.substr(r.i, r.end - r.i); r.i = r.end;
        break;
    }
    case PUBACK: case PUBREC: case PUBREL: case PUBCOMP: {
        if (!(e = need_flags(out.type == PUBREL ? 2 : 0)).empty()) return e;
        out.pid = r.u16();
        if (r.ok() && out.pid == 0) return "packet identifier 0";
        if (r.left() > 0) { out.rc = r.u8(); out.rc_present = true; }
        if (r.left() > 0) {
            out.props_present = true;
            PSlot s = out.type == PUBACK ? PSlot::puback : out.type == PUBREC ? PSlot::pubrec : out.type == PUBREL ? PSlot::pubrel : PSlot::pubcomp;
            if (!(e = read_props(r, s, out.props)).empty()) return "ack properties: " + e;
        }
        break;
    }
    case SUBSCRIBE: {
        if (!(e = need_flags(2)).empty()) return e;
        out.pid = r.u16();
        if (r.ok() && out.pid == 0) return "packet identifier 0";
        if (!r.ok()) return r.err;
        if (!(e = read_props(r, PSlot::subscribe, out.props)).empty()) return "SUBSCRIBE properties: " + e;
        while (r.ok() && r.left() > 0) {
            SubTopic t; t.filter = r.str(); t.opts = r.u8();
            if (!r.ok()) break;
            if (t.filter.empty()) return "empty topic filter";
            if (t.opts & 0xc0) return "subscription options reserved bits";
            if ((t.opts & 3) == 3) return "subscription options QoS 3";
            if (((t.opts >> 4) & 3) == 3) return "subscription options retain handling 3";
            out.subs.push_back(std::move(t));
        }
        if (r.ok() && out.subs.empty()) return "SUBSCRIBE without topic filter";
        break;
    }
    case UNSUBSCRIBE: {
        if (!(e = need_flags(2)).empty()) return e;
        out.pid = r.u16();
        if (r.ok() && out.pid == 0) return "packet identifier 0";
        if (!r.ok()) return r.err;
        if (!(e = read_props(r, PSlot::unsubscribe, out.props)).empty()) return "UNSUBSCRIBE properties: " + e;
        while (r.ok() && r.left() > 0) {
            std::string f = r.str();
            if (!r.ok()) break;
            if (f.empty()) return "empty topic filter";
            out.unsubs.push_back(std::move(f));
        }
        if (r.ok() && out.unsubs.empty()) return "UNSUBSCRIBE without topic filter";
        break;
    }
    case PINGREQ:
        if (!(e = need_flags(0)).empty()) return e;
        break;
    case DISCONNECT: case AUTH: {
        if (!(e = need_flags(0)).empty()) return e;
        if (r.left() > 0) { out.rc = r.u8(); out.rc_present = true; }
        if (r.left() > 0) {
            out.props_present = true;
            if (!(e = read_props(r, out.type == DISCONNECT ? PSlot::disconnect : PSlot::auth, out.props)).empty())
                return "properties: " + e;
        }
        break;
    }
    // packets a client must never send
    case CONNACK: case SUBACK: case UNSUBACK: case PINGRESP: {
        if (!from_server) return std::string("client sent server-only packet ") + ptype_name(out.type);
        if (!(e = need_flags(0)).empty()) return e;
        if (out.type == PINGRESP) break;
        if (out.type == CONNACK) {
            uint8_t fl = r.u8();
            if (fl & 0xfe) return "CONNACK reserved acknowledge flags";
            out.session_present = fl & 1;
            out.rc = r.u8(); out.rc_present = true;
            if (!r.ok()) return r.err;
            out.props_present = true;
            if (!(e = read_props(r, PSlot::connack, out.props)).empty()) return "CONNACK properties: " + e;
            break;
        }
        out.pid = r.u16();
        if (r.ok() && out.pid == 0) return "packet identifier 0";
        if (!r.ok()) return r.err;
        if (!(e = read_props(r, out.type == SUBACK ? PSlot::suback : PSlot::unsuback, out.props)).empty()) return "ack properties: " + e;
        while (r.ok() && r.left() > 0) out.rcs.push_back(r.u8());
        if (out.rcs.empty()) return "SUBACK/UNSUBACK without reason codes";
        break;
    }
    default:
        return "reserved packet type 0";
    }
    if (!r.ok()) return std::string(ptype_name(out.type)) + ": " + r.err;
    if (r.left() != 0) return std::string(ptype_name(out.type)) + ": " + std::to_string(r.left()) + " trailing bytes";
    return {};
}

std::vector<std::string> Framer::feed(const char* data, size_t n) {
    std::vector<std::string> out;
    if (!error.empty()) return out;
    buf.append(data, n);
    for (;;) {
        if (buf.size() < 2) break;
        uint32_t v = 0; int shift = 0; size_t i = 1; bool done = false;
        for (int k = 0; k < 4 && i < buf.size(); ++k, ++i) {
            uint8_t b = (uint8_t)buf[i];
            v |= (uint32_t)(b & 0x7f) << shift; shift += 7;
            if (!(b & 0x80)) { done = true; ++i; break; }
        }
        if (!done) {
            if (buf.size() >= 5) { error = "Remaining Length longer than 4 bytes"; }
            break;
        }
        size_t total = i + v;
        if (buf.size() < total) break;
        out.push_back(buf.substr(0, total));
        buf.erase(0, total);
    }
    return out;
}

} // namespace mq
