// MQTT 5 broker reference model + wire monitor. Legitimate MQTT unless a hostile
// window is open. Records everything the oracles need.
#pragma once
#include <deque>
#include <map>
#include <optional>
#include <set>
#include <string>
#include <vector>

#include "../core/rng.hpp"
#include "../net/network.hpp"
#include "mqtt_types.hpp"
#include "ref_codec.hpp"

namespace bk {

using sim::ns_t;

struct Caps {
    std::optional<uint16_t> recv_max, server_ka, topic_alias_max;
    std::optional<uint32_t> max_packet, session_expiry;
    std::optional<uint8_t> max_qos, retain_avail, wildcard, subid, shared;
    std::optional<std::string> assigned_cid, reason_string, response_info, server_ref;
    std::vector<std::pair<std::string, std::string>> user;
    mq::Props to_props() const;
    bool operator==(const Caps& o) const { return to_props() == o.to_props(); }
};

struct RecvPkt {
    int idx = 0; int conn = -1; uint64_t seq = 0; ns_t t = 0;
    mq::Packet pkt; std::string decode_err;
    size_t off_begin = 0, off_end = 0;
    uint64_t group = 0;               // composed client write that carried the last byte
    uint64_t first_group = 0;         // ... the first byte
    bool during_handshake = false;
    bool in_hostile_window = false;
};

struct SentPkt {
    int idx = 0; int conn = -1; uint64_t seq = 0; ns_t t = 0;
    mq::Packet pkt; std::string raw;
    size_t off_begin = 0, off_end = 0;
    size_t emitted_len = 0;           // bytes that actually went out (less than raw.size() for a cut emission)
    uint64_t delivered_seq = 0; ns_t delivered_t = 0;   // last byte consumed by a client read
    bool hostile = false;             // deliberately malformed / illegitimate
    bool dup_ack = false;             // repetition of an acknowledgement already sent
    int reply_to = -1;                // RecvPkt idx
    int msg = -1;                     // broker message id for PUBLISH/PUBREL
};

enum class HsMode { ok, connack_error, garbage, silent, wrong_packet, truncated_connack, close_before_connack };

struct BConn {
    int conn = -1; int host = -1;
    enum Phase { wait_connect, authing, established, closed } phase = wait_connect;
    mq::Framer framer;
    Caps caps; bool caps_sent = false;
    bool session_present = false;
    int connack_sent_idx = -1;        // SentPkt idx of the successful CONNACK
    HsMode hs = HsMode::ok;
    uint8_t hs_rc = 0;
    int auth_rounds_left = 0;
    std::string auth_method;
    std::vector<int> recv, sent;
    std::set<uint16_t> inflight;      // C07: distinct QoS>0 ids received here and not yet released by an emitted ack
    size_t max_inflight = 0;
    bool got_disconnect = false; uint8_t disconnect_rc = 0; int disconnect_idx = -1;
    bool sent_disconnect = false;
    bool hostile_touched = false;     // a malformed/illegitimate packet was sent on it
    bool ping_silent = false;         // do not answer PINGREQ (and nothing else) - keep-alive tests
    ns_t last_emit_t = 0;
    uint16_t client_keep_alive = 0;
    std::optional<uint16_t> client_recv_max;
    std::optional<uint32_t> client_max_packet;
    bool client_gone = false;
    uint64_t close_seq = 0;
    int unanswered = 0;               // requests received whose ack is withheld/pending
    std::deque<std::pair<mq::Packet, int>> recent_final_acks;   // (ack, receipt index) of the last few exchanges, for the repeated-acknowledgement quirk
    bool withheld_any = false;
    bool pubrel_blocked = false;      // a PUBREL was withheld: later ones stay behind it [MQTT-4.6.0-4]
};

struct OutMsg {                        // a message the broker sends to the client
    int id = -1; uint8_t qos = 0; std::string topic, payload; mq::Props props; bool retain = false;
    uint16_t pid = 0;
    enum St { queued, sent, pubrecd, done, dropped } st = queued;
    int sends = 0;                    // transmissions of PUBLISH
    int first_conn = -1; uint64_t first_send_seq = 0;
    bool session_lost = false;        // in flight / queued when the broker dropped the session
    uint64_t created_seq = 0;
    std::vector<int> publish_idx, pubrel_idx;   // SentPkt idx
    bool fully_sent_once = false;
    bool emission_withheld = false;   // an injected fault swallowed a (re)transmission of its PUBLISH or PUBREL: the broker lost it
};

struct Session {
    bool exists = false;
    std::set<uint16_t> inbound_qos2;          // PUBREC sent, PUBREL not yet seen
    std::set<std::string> subs;
    std::deque<int> outq;                     // OutMsg ids not completed, in order
    uint16_t next_pid = 1;
    int generation = 0;
};

struct Knobs {
    // acknowledgement behaviour
    ns_t ack_delay_max = 5 * sim::MS;
    double ack_zero_p = 0.4;
    double ack_err_p = 0.0;           // error reason codes on PUBACK/PUBREC/SUBACK/UNSUBACK
    double ack_props_p = 0.0;         // reason string / user props on acks
    double short_form_p = 0.3;
    double pubcomp_notfound_p = 0.0;
    double dup_ack_p = 0.0;           // the broker repeats a final acknowledgement (not legitimate MQTT, harmless on TCP; oracles switch to the relaxed witness rule)
    // connection behaviour
    double session_loss_p = 0.0;      // Session Present 0 on reconnect although a session exists
    bool caps_change = false;         // draw new capabilities per connection
    Caps base_caps;
    int auth_rounds = 0;
    bool answer_ping = true;
    double connack_props_p = 0.3;
    bool respect_client_limits = true;
    // hostile
    bool hostile = false;
    double hostile_p = 0.0;           // probability that an emitted packet is mutated
    bool hostile_handshake = false;
};

enum class PfWhen { on_recv, on_emit };
enum class PfAct { rst, rst_lose, fin, blackhole, withhold, delay, disconnect, cut_emit, write_fault, hostile_reply };

struct ProtoFault {
    PfWhen when = PfWhen::on_recv;
    uint8_t ptype = 0;                // 0 = any
    int nth = 0;                      // fire on the (nth+1)-th match
    PfAct act = PfAct::rst;
    ns_t delay = 0;
    int arg = 0;                      // cut_emit: bytes of the packet that still go out; disconnect: rc; write_fault: permille
    int hostile_kind = 0;
    bool fired = false;
    int plan_step = -1;
};

struct Broker : sim::NetSink {
    Broker(sim::World& w, sim::Network& n);

    sim::World& w; sim::Network& net;
    Knobs knobs;
    std::vector<std::unique_ptr<BConn>> conns;       // index = network conn id (null for failed attempts)
    std::vector<RecvPkt> recv;
    std::vector<SentPkt> sent;
    std::vector<OutMsg> msgs;
    Session session;
    std::vector<ProtoFault> pfaults;
    std::deque<std::pair<HsMode, uint8_t>> hs_script;    // outcomes for the next handshakes
    std::deque<int> session_present_script;              // 1/0 forced decisions for next CONNACKs (-1 = knob)
    bool healed = false;
    bool hostile_window = false;
    struct Overlap { uint64_t old_begin, new_begin; bool resolve; std::string text; };
    std::vector<Overlap> overlaps;                       // C11 (system): raw observations, judged by the oracle
    std::vector<std::string> violations_online;          // protocol violations by the client noticed on receipt (C17 etc.)
    std::vector<std::pair<uint64_t,int>> sp_history;     // (seq, session present) per successful CONNACK

    BConn* bc(int conn) { return conn >= 0 && conn < (int)conns.size() ? conns[conn].get() : nullptr; }
    BConn* current();                                    // latest established, not closed
    std::string unfinished_attempt(int except, uint64_t* begun = nullptr);

    // NetSink
    void on_attempt(sim::Conn&) override;
    void on_established(sim::Conn&) override;
    void on_bytes(sim::Conn&, const char* data, size_t n, size_t off) override;
    void on_client_gone(sim::Conn&) override;
    void on_b2c_consumed(sim::Conn&, size_t upto) override;
    void on_conn_dead(sim::Conn&) override;

    // plan-driven actions
    int publish(uint8_t qos, std::string topic, std::string payload, mq::Props props, bool retain);
    void send_disconnect(uint8_t rc, mq::Props props);
    void restart(bool lose_session);
    void heal();
    void arm(ProtoFault f) { pfaults.push_back(f); }
    // repeated-acknowledgement quirk, placed by the driver: repeat the final acknowledgements of the last few exchanges of
    // this connection now (the identifier the client is about to re-use is among them once identifiers wrap around)
    bool repeat_recent_final_acks(int conn);

    // emit a packet on a connection (delay 0 = now)
    int emit(BConn& c, mq::Packet p, ns_t delay, int reply_to = -1, int msg = -1, bool hostile = false, std::string raw_override = {});

private:
    void handle(BConn& c, int ridx);
    void maybe_duplicate(BConn& c, const mq::Packet& a, ns_t delay, int ridx);
    void handle_connect(BConn& c, int ridx);
    void finish_handshake(BConn& c, int ridx);
    void resume_outbound(BConn& c);
    void pump_outbound(BConn& c);
    void send_msg(BConn& c, OutMsg& m, bool dup);
    ns_t ack_delay(BConn& c);
    mq::Props ack_props(BConn& c, mq::PSlot slot);
    Caps draw_caps(int conn);
    bool apply_pfaults(PfWhen when, BConn& c, mq::Packet& p, ns_t& delay, bool& withhold, int& cut, bool& hostile_reply, int& hostile_kind);
    void do_emit(int conn, int sidx, int cut);
    sim::Rng rng_for(int conn, const char* what, uint64_t k = 0);
    uint64_t emit_counter_ = 0;
};

std::string hostile_mutation(const std::string& raw, sim::Rng& r, int kind, std::string* desc);
int hostile_kinds();

} // namespace bk
