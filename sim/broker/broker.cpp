#include "broker.hpp"

#include <algorithm>
#include <cassert>

namespace bk {

using namespace mq;
using sim::MS; using sim::SEC;

static Prop P(uint8_t id, uint32_t num) { Prop p; p.id = id; p.num = num; return p; }
static Prop PS(uint8_t id, std::string s) { Prop p; p.id = id; p.s1 = std::move(s); return p; }
static Prop PP(std::string k, std::string v) { Prop p; p.id = P_USER; p.s1 = std::move(k); p.s2 = std::move(v); return p; }

Props Caps::to_props() const {
    Props r;
    if (session_expiry) r.push_back(P(P_SESSION_EXPIRY, *session_expiry));
    if (recv_max) r.push_back(P(P_RECV_MAX, *recv_max));
    if (max_qos) r.push_back(P(P_MAX_QOS, *max_qos));
    if (retain_avail) r.push_back(P(P_RETAIN_AVAIL, *retain_avail));
    if (max_packet) r.push_back(P(P_MAX_PACKET, *max_packet));
    if (assigned_cid) r.push_back(PS(P_ASSIGNED_CID, *assigned_cid));
    if (topic_alias_max) r.push_back(P(P_TOPIC_ALIAS_MAX, *topic_alias_max));
    if (reason_string) r.push_back(PS(P_REASON_STRING, *reason_string));
    for (auto& u : user) r.push_back(PP(u.first, u.second));
    if (wildcard) r.push_back(P(P_WILDCARD_AVAIL, *wildcard));
    if (subid) r.push_back(P(P_SUBID_AVAIL, *subid));
    if (shared) r.push_back(P(P_SHARED_AVAIL, *shared));
    if (server_ka) r.push_back(P(P_SERVER_KA, *server_ka));
    if (response_info) r.push_back(PS(P_RESPONSE_INFO, *response_info));
    if (server_ref) r.push_back(PS(P_SERVER_REF, *server_ref));
    return r;
}

Broker::Broker(sim::World& world, sim::Network& n) : w(world), net(n) { net.sink = this; }

sim::Rng Broker::rng_for(int conn, const char* what, uint64_t k) {
    return sim::Rng::keyed(w.seed, what, {(uint64_t)(conn + 1), k});
}

BConn* Broker::current() {
    for (int i = (int)conns.size() - 1; i >= 0; --i)
        if (conns[i] && conns[i]->phase == BConn::established && !conns[i]->client_gone) return conns[i].get();
    return nullptr;
}

// C11 (system half): is some earlier connection attempt still in progress, i.e. not handshake-complete
// and with an operation of the client pending on it?
std::string Broker::unfinished_attempt(int except, uint64_t* begun) {
    for (auto& up : net.conns) {
        sim::Conn& o = *up;
        if (o.id == except || o.client_closed) continue;
        bool pending = (o.connect_op && o.connect_op->pending()) || (o.read_op && o.read_op->pending()) || (o.write_op && o.write_op->pending());
        if (!pending) continue;
        BConn* b = bc(o.id);
        bool handshaken = b && b->connack_sent_idx >= 0 && sent[b->connack_sent_idx].delivered_seq != 0;
        if (handshaken) continue;
        if (begun) *begun = o.seq_begin;
        return "connection attempt " + std::to_string(o.id) + " (begun at seq " + std::to_string(o.seq_begin) + ") still has an operation pending";
    }
    return {};
}

void Broker::on_attempt(sim::Conn& nc) {
    uint64_t ob = 0;
    auto e = unfinished_attempt(nc.id, &ob);
    if (!e.empty())
        overlaps.push_back({ob, nc.seq_begin, false, "connection attempt " + std::to_string(nc.id) + " started at seq " + std::to_string(nc.seq_begin) + " while " + e});
}

void Broker::on_established(sim::Conn& nc) {
    if ((int)conns.size() <= nc.id) conns.resize(nc.id + 1);
    auto c = std::make_unique<BConn>();
    c->conn = nc.id; c->host = nc.host_idx;
    if (!hs_script.empty()) { c->hs = hs_script.front().first; c->hs_rc = hs_script.front().second; hs_script.pop_front(); }
    if (healed) { c->hs = HsMode::ok; }
    conns[nc.id] = std::move(c);
}

void Broker::on_client_gone(sim::Conn& nc) {
    BConn* c = bc(nc.id);
    if (!c) return;
    c->client_gone = true;
    c->close_seq = w.seq;
    if (c->phase != BConn::closed) c->phase = BConn::closed;
}

void Broker::on_conn_dead(sim::Conn&) {}

void Broker::on_b2c_consumed(sim::Conn& nc, size_t upto) {
    BConn* c = bc(nc.id);
    if (!c) return;
    for (int si : c->sent) {
        auto& s = sent[si];
        if (!s.delivered_seq && s.off_end <= upto && s.off_end > 0) { s.delivered_seq = w.seq; s.delivered_t = w.now; }
    }
}

void Broker::on_bytes(sim::Conn& nc, const char* data, size_t n, size_t off) {
    BConn* c = bc(nc.id);
    if (!c) return;
    size_t before = off - c->framer.partial();      // stream offset of the first buffered byte
    auto pkts = c->framer.feed(data, n);
    size_t pos = before;
    for (auto& raw : pkts) {
        RecvPkt r;
        r.idx = (int)recv.size(); r.conn = nc.id; r.seq = w.next_seq(); r.t = w.now;
        r.off_begin = pos; r.off_end = pos + raw.size(); pos = r.off_end;
        r.during_handshake = c->phase == BConn::wait_connect || c->phase == BConn::authing;
        r.in_hostile_window = hostile_window || c->hostile_touched;
        for (auto it = net.groups.rbegin(); it != net.groups.rend(); ++it) {
            if (it->conn != nc.id) continue;
            if (!r.group && it->off_begin < r.off_end && r.off_end <= it->off_end) r.group = it->id;
            if (it->off_begin <= r.off_begin && r.off_begin < it->off_end) { r.first_group = it->id; }
            if (it->off_end <= r.off_begin) break;
        }
        r.decode_err = decode_strict(raw, r.pkt);
        w.trs("brk_recv", r.decode_err.empty() ? packet_str(r.pkt) : ("UNDECODABLE " + r.decode_err + " " + hex(raw)), nc.id);
        recv.push_back(std::move(r));
        c->recv.push_back((int)recv.size() - 1);
        if (recv.back().decode_err.empty()) handle(*c, (int)recv.size() - 1);
        if (c->client_gone && c->phase == BConn::closed && net.conn(nc.id)->broker_closed) break;
    }
    if (!c->framer.error.empty()) {
        w.trs("brk_frame_error", c->framer.error, nc.id);
        violations_online.push_back("conn " + std::to_string(nc.id) + ": framing error from client: " + c->framer.error);
    }
}

ns_t Broker::ack_delay(BConn& c) {
    auto r = rng_for(c.conn, "ackdelay", ++emit_counter_);
    if (r.chance(knobs.ack_zero_p)) return 0;
    return r.range(0, knobs.ack_delay_max);
}

Props Broker::ack_props(BConn& c, PSlot) {
    Props p;
    auto r = rng_for(c.conn, "ackprops", ++emit_counter_);
    if (!r.chance(knobs.ack_props_p)) return p;
    if (r.chance(0.6)) p.push_back(PS(P_REASON_STRING, "rs" + std::to_string(r.below(1000))));
    int nu = (int)r.below(3);
    for (int i = 0; i < nu; ++i) p.push_back(PP("k" + std::to_string(r.below(5)), "v" + std::to_string(r.below(100))));
    // keep acks below the client's announced maximum packet size (a legitimate broker drops properties that do not fit)
    return p;
}

Caps Broker::draw_caps(int conn) {
    if (!knobs.caps_change) return knobs.base_caps;
    auto r = rng_for(conn, "caps");
    Caps c = knobs.base_caps;
    if (r.chance(0.5)) c.recv_max = (uint16_t)r.pick<int>({1, 2, 3, 10, 65535});
    else c.recv_max.reset();
    if (r.chance(0.3)) c.max_qos = (uint8_t)r.below(2);
    else c.max_qos.reset();
    if (r.chance(0.3)) c.retain_avail = (uint8_t)r.below(2);
    if (r.chance(0.3)) c.topic_alias_max = (uint16_t)r.pick<int>({0, 1, 5, 65535});
    if (r.chance(0.3)) c.max_packet = (uint32_t)r.pick<int>({64, 100, 128, 200, 1000, 70000});
    if (r.chance(0.3)) c.server_ka = (uint16_t)r.pick<int>({0, 1, 2, 5, 60});
    return c;
}

// returns true when the event must not proceed normally (connection killed)
bool Broker::apply_pfaults(PfWhen when, BConn& c, Packet& p, ns_t& delay, bool& withhold, int& cut, bool& hostile_reply, int& hostile_kind) {
    if (healed) return false;
    bool killed = false;
    for (auto& f : pfaults) {
        if (f.fired || f.when != when) continue;
        if (f.ptype && f.ptype != p.type) continue;
        if (f.nth > 0) { --f.nth; continue; }
        f.fired = true;
        sim::Conn& nc = *net.conn(c.conn);
        w.tr("pfault", c.conn, (uint64_t)f.act, p.type);
        w.count(std::string("pfault.") + (when == PfWhen::on_recv ? "recv." : "emit.") + ptype_name(p.type));
        switch (f.act) {
        case PfAct::rst: net.inject_rst(nc, false, "pfault_rst"); killed = true; break;
        case PfAct::rst_lose: net.inject_rst(nc, true, "pfault_rst_lose"); killed = true; break;
        case PfAct::fin:
            nc.fault_injected = true; nc.transport_fault = true; w.count("fault.eof");
            if (!*nc.close_cause) nc.close_cause = "net_fin";
            net.broker_close(nc, false); c.client_gone = true; c.phase = BConn::closed; killed = true; break;
        case PfAct::blackhole: net.inject_blackhole(nc, "pfault_blackhole"); killed = true; break;
        case PfAct::withhold: withhold = true; c.withheld_any = true; w.count("fault.ack_withheld"); break;
        case PfAct::delay: delay += f.delay; w.count("fault.ack_delayed"); break;
        case PfAct::disconnect: {
            Packet d; d.type = DISCONNECT; d.rc = (uint8_t)f.arg;
            emit(c, d, 0);
            w.count("fault.server_disconnect");
            break;
        }
        case PfAct::cut_emit: cut = f.arg; w.count("fault.cut_emit"); break;
        case PfAct::write_fault: {
            sim::WriteFault wf; wf.nth = nc.write_calls; wf.deliver_permille = f.arg;
            wf.ec = boost::asio::error::connection_reset;
            nc.write_faults.push_back(wf);
            break;
        }
        case PfAct::hostile_reply: hostile_reply = true; hostile_kind = f.hostile_kind; break;
        }
    }
    return killed;
}

bool Broker::repeat_recent_final_acks(int conn) {
    BConn* c = bc(conn);
    if (!c || c->recent_final_acks.empty() || knobs.dup_ack_p <= 0 || healed || c->client_gone) return false;
    auto acks = c->recent_final_acks;      // emit() may re-enter
    bool any = false;
    for (auto& [a, ridx] : acks) {
        int sidx = emit(*c, a, 0, ridx);
        if (sidx < 0) continue;
        sent[sidx].dup_ack = true; w.count("fault.duplicate_ack"); any = true;
    }
    if (any) w.count("fault.duplicate_ack_placed");
    return any;
}

void Broker::maybe_duplicate(BConn& c, const Packet& a, ns_t delay, int ridx) {
    c.recent_final_acks.emplace_back(a, ridx); if (c.recent_final_acks.size() > 16) c.recent_final_acks.pop_front();
    if (knobs.dup_ack_p <= 0 || healed) return;
    auto r = rng_for(c.conn, "dupack", ++emit_counter_);
    if (!r.chance(knobs.dup_ack_p)) return;
    int sidx = emit(c, a, delay + r.pick<ns_t>({0, 1 * MS, 50 * MS, 500 * MS, 3 * SEC}) + r.range(0, 20 * MS), ridx);
    if (sidx >= 0) { sent[sidx].dup_ack = true; w.count("fault.duplicate_ack"); }
}

int Broker::emit(BConn& c, Packet p, ns_t delay, int reply_to, int msg, bool hostile, std::string raw_override) {
    SentPkt s;
    s.idx = (int)sent.size(); s.conn = c.conn; s.reply_to = reply_to; s.msg = msg; s.hostile = hostile;
    bool withhold = false, hostile_reply = false; int cut = -1, hk = 0;
    bool killed = apply_pfaults(PfWhen::on_emit, c, p, delay, withhold, cut, hostile_reply, hk);
    if (p.type == PUBREL && !hostile) { if (c.pubrel_blocked && !healed) withhold = true; else if (withhold) c.pubrel_blocked = true; }
    if (killed || withhold) {
        if (withhold && reply_to >= 0) ++c.unanswered;
        if (msg >= 0 && msg < (int)msgs.size()) msgs[msg].emission_withheld = true;
        return -1;
    }
    auto r = rng_for(c.conn, "enc", ++emit_counter_);
    EncOpts eo;
    if (r.chance(knobs.short_form_p)) eo.short_rc = true;
    if (r.chance(knobs.short_form_p)) eo.short_props = true;
    s.raw = raw_override.empty() ? encode(p, eo) : raw_override;
    if (raw_override.empty() && !hostile && knobs.respect_client_limits && s.raw.size() > c.client_max_packet.value_or(65536) && p.type != PUBLISH) {
        // a legitimate server drops optional properties rather than exceed the client's Maximum Packet Size
        if (p.type != CONNACK) p.props.clear();
        else p.props.erase(std::remove_if(p.props.begin(), p.props.end(), [](const Prop& x) { return x.id == P_USER || x.id == P_REASON_STRING || x.id == P_RESPONSE_INFO || x.id == P_SERVER_REF; }), p.props.end());
        s.raw = encode(p, eo);
        w.count("brk.props_dropped_for_client_limit");
    }
    if ((knobs.hostile && hostile_window && r.chance(knobs.hostile_p)) || hostile_reply) {
        std::string desc;
        auto hr = rng_for(c.conn, "hostile", emit_counter_);
        std::string mutated = hostile_mutation(s.raw, hr, hostile_reply ? hk : -1, &desc);
        if (mutated != s.raw) { s.raw = mutated; s.hostile = true; w.count("hostile." + desc); }
    }
    // re-decode what actually goes out so that oracles see wire truth (short forms etc.)
    s.pkt = p;
    s.pkt.raw = s.raw;
    s.idx = (int)sent.size();        // a fault action above may itself have emitted a packet
    sent.push_back(s);
    int sidx = s.idx;
    c.sent.push_back(sidx);
    int conn = c.conn;
    bool ordered = p.type == CONNACK || p.type == PUBLISH || p.type == PUBREL || p.type == DISCONNECT || p.type == AUTH;
    ns_t at = w.now + delay;
    static thread_local std::map<int, ns_t> dummy;
    (void)dummy;
    if (ordered) { at = std::max(at, c.last_emit_t); c.last_emit_t = at; }
    w.schedule(at, "brk_emit", [this, conn, sidx, cut]() { do_emit(conn, sidx, cut); });
    return sidx;
}

void Broker::do_emit(int conn, int sidx, int cut) {
    BConn* c = bc(conn);
    sim::Conn* nc = net.conn(conn);
    if (!c || !nc) return;
    auto& s = sent[sidx];
    if (nc->broker_closed || c->client_gone) { s.off_begin = s.off_end = 0; return; }   // never left the broker
    s.seq = w.next_seq(); s.t = w.now;
    s.off_begin = nc->b2c_emitted;
    std::string bytes = s.raw;
    if (cut >= 0 && (size_t)cut < bytes.size()) bytes.resize(cut);
    s.emitted_len = bytes.size();
    s.off_end = (cut >= 0 && (size_t)cut < s.raw.size()) ? 0 : s.off_begin + bytes.size();   // a cut packet is never "delivered"
    if (s.hostile) c->hostile_touched = true;
    // C07: release the identifier at the earliest possible moment - emission of the final ack
    const Packet& p = s.pkt;
    if (!s.hostile && (p.type == PUBACK || p.type == PUBCOMP || (p.type == PUBREC && p.rc >= 0x80)))
        c->inflight.erase(p.pid);
    w.trs("brk_emit", packet_str(p) + (s.hostile ? " [HOSTILE " + hex(s.raw, 48) + "]" : ""), conn);
    net.broker_send(*nc, bytes);
    if (cut >= 0) {
        nc->fault_injected = true; nc->transport_fault = true;
        nc->fault_log.push_back("cut_emit " + std::to_string(cut));
        if (!*nc->close_cause) nc->close_cause = "net_fin";
        net.broker_close(*nc, false);
        c->client_gone = true; c->phase = BConn::closed;
    }
    if (p.type == DISCONNECT && !s.hostile) {
        c->sent_disconnect = true;
        if (!*nc->close_cause) nc->close_cause = "broker_disconnect";
        net.broker_close(*nc, false);
        c->client_gone = true; c->phase = BConn::closed;
    }
    if (p.type == CONNACK && p.rc >= 0x80 && !s.hostile) {
        if (!*nc->close_cause) nc->close_cause = "broker_connack_error";
        net.broker_close(*nc, false);
        c->client_gone = true; c->phase = BConn::closed;
    }
}

// ------------------------------------------------------------------ handshake

void Broker::handle_connect(BConn& c, int ridx) {
    const Packet& p = recv[ridx].pkt;
    // session take-over [MQTT-3.1.4-3]: an existing connection of the same client is closed
    for (auto& o : conns) {
        if (!o || o.get() == &c || o->phase == BConn::closed) continue;
        sim::Conn* onc = net.conn(o->conn);
        if (onc && !onc->broker_closed) { if (!*onc->close_cause) onc->close_cause = "broker_takeover"; net.broker_close(*onc, false); }
        o->client_gone = true; o->phase = BConn::closed;
        w.count("brk.session_takeover");
    }
    c.client_keep_alive = p.keep_alive;
    if (auto* x = find_prop(p.props, P_RECV_MAX)) c.client_recv_max = (uint16_t)x->num;
    if (auto* x = find_prop(p.props, P_MAX_PACKET)) c.client_max_packet = x->num;
    if (auto* x = find_prop(p.props, P_AUTH_METHOD)) c.auth_method = x->s1;
    sim::Conn& nc = *net.conn(c.conn);
    auto r = rng_for(c.conn, "hs");
    if (healed) c.hs = HsMode::ok;
    switch (c.hs) {
    case HsMode::silent:
        w.count("fault.handshake_silent");
        nc.fault_injected = true;
        return;
    case HsMode::garbage: {
        w.count("fault.handshake_garbage");
        nc.fault_injected = true;
        Packet g; g.type = CONNACK;
        std::string raw;
        int n = (int)r.range(1, 40);
        for (int i = 0; i < n; ++i) raw.push_back((char)r.below(256));
        emit(c, g, r.range(0, 3 * MS), ridx, -1, true, raw);
        return;
    }
    case HsMode::wrong_packet: {
        w.count("fault.handshake_wrong_packet");
        nc.fault_injected = true;
        Packet g; g.type = r.chance(0.5) ? PUBACK : PINGRESP; g.pid = 1;
        emit(c, g, r.range(0, 3 * MS), ridx, -1, true);
        return;
    }
    case HsMode::close_before_connack:
        w.count("fault.handshake_close");
        nc.fault_injected = true; nc.transport_fault = true;
        if (!*nc.close_cause) nc.close_cause = "broker_fin";
        net.broker_close(nc, r.chance(0.5));
        c.client_gone = true; c.phase = BConn::closed;
        return;
    case HsMode::connack_error: {
        w.count("fault.connack_error");
        Packet a; a.type = CONNACK; a.session_present = false;
        a.rc = c.hs_rc ? c.hs_rc : (uint8_t)r.pick<int>({0x80, 0x81, 0x82, 0x83, 0x84, 0x85, 0x86, 0x87, 0x88, 0x89, 0x8a, 0x8c,
                                                            0x90, 0x95, 0x97, 0x99, 0x9a, 0x9b, 0x9c, 0x9d, 0x9f});
        emit(c, a, r.range(0, 3 * MS), ridx);
        return;
    }
    case HsMode::truncated_connack: {
        w.count("fault.connack_truncated");
        nc.fault_injected = true;
        break;   // handled in finish_handshake via cut
    }
    case HsMode::ok: break;
    }
    if (!c.auth_method.empty() && knobs.auth_rounds > 0) {
        c.phase = BConn::authing;
        c.auth_rounds_left = knobs.auth_rounds;
        Packet a; a.type = AUTH; a.rc = 0x18;
        a.props.push_back(PS(P_AUTH_METHOD, c.auth_method));
        a.props.push_back(PS(P_AUTH_DATA, "ch" + std::to_string(c.auth_rounds_left)));
        --c.auth_rounds_left;
        emit(c, a, r.range(0, 3 * MS), ridx);
        return;
    }
    finish_handshake(c, ridx);
}

void Broker::finish_handshake(BConn& c, int ridx) {
    if (healed) c.hs = HsMode::ok;
    auto r = rng_for(c.conn, "hs2");
    bool had = session.exists;
    bool lose = false;
    if (!session_present_script.empty()) {
        int v = session_present_script.front(); session_present_script.pop_front();
        if (v == 0) lose = true;
        else if (v < 0) lose = r.chance(knobs.session_loss_p);
    } else if (!healed || true) lose = r.chance(knobs.session_loss_p);
    bool sp = had && !lose && !recv[ridx].pkt.clean_start;
    if (!sp) {
        if (had) w.count("fault.session_lost");
        for (int id : session.outq) { auto& m = msgs[id]; m.session_lost = true; m.st = OutMsg::dropped; }
        // queued and in-flight messages die with the session
        session = Session{};
        session.exists = true;
        session.generation++;
    }
    c.session_present = sp;
    c.caps = draw_caps(c.conn);
    Packet a; a.type = CONNACK; a.session_present = sp; a.rc = 0;
    a.props = c.caps.to_props();
    if (!c.auth_method.empty()) {
        a.props.push_back(PS(P_AUTH_METHOD, c.auth_method));
        if (r.chance(0.5)) a.props.push_back(PS(P_AUTH_DATA, "final"));
    }
    int cut = -1;
    if (c.hs == HsMode::truncated_connack) {
        std::string raw = encode(a);
        cut = std::min((int)r.pick<int>({1, 2, 3, 4, 5, (int)raw.size() - 1}), (int)raw.size() - 1);   // always a real truncation
        ProtoFault f; f.when = PfWhen::on_emit; f.ptype = CONNACK; f.act = PfAct::cut_emit; f.arg = cut;
        pfaults.push_back(f);
    }
    int sidx = emit(c, a, r.range(0, 3 * MS), ridx);
    if (sidx < 0) return;
    if (cut >= 0) return;
    c.connack_sent_idx = sidx;
    c.caps_sent = true;
    c.phase = BConn::established;
    sp_history.push_back({w.seq, sp ? 1 : 0});
    if (sp) resume_outbound(c);
    pump_outbound(c);
}

void Broker::send_msg(BConn& c, OutMsg& m, bool dup) {
    Packet p; p.type = PUBLISH; p.qos = m.qos; p.topic = m.topic; p.payload = m.payload; p.props = m.props;
    p.retain = m.retain; p.pid = m.pid; p.dup = dup;
    // the client under test accepts at most 65536 bytes per packet unless it announced another Maximum Packet Size
    if (knobs.respect_client_limits && encode(p).size() > c.client_max_packet.value_or(65536)) {
        // MQTT: a server must not send a packet exceeding the client's Maximum Packet Size; it discards it
        m.st = OutMsg::dropped; m.session_lost = true;
        w.count("brk.msg_dropped_too_large");
        return;
    }
    int sidx = emit(c, p, 0, -1, m.id);
    if (sidx >= 0) {
        m.publish_idx.push_back(sidx);
        if (!m.sends) { m.first_conn = c.conn; m.first_send_seq = w.seq; }
        ++m.sends;
    }
    if (m.qos == 0) m.st = OutMsg::done; else m.st = OutMsg::sent;
}

void Broker::resume_outbound(BConn& c) {
    // MQTT 4.4: on session resumption re-send unacknowledged PUBLISH (DUP=1) and PUBREL, in original order
    for (int id : session.outq) {
        auto& m = msgs[id];
        if (m.st == OutMsg::sent) { w.count("brk.retransmit_publish"); send_msg(c, m, true); }
        else if (m.st == OutMsg::pubrecd) {
            w.count("brk.retransmit_pubrel");
            Packet p; p.type = PUBREL; p.pid = m.pid;
            int sidx = emit(c, p, 0, -1, m.id);
            if (sidx >= 0) m.pubrel_idx.push_back(sidx);
        }
    }
}

void Broker::pump_outbound(BConn& c) {
    if (c.phase != BConn::established || c.client_gone) return;
    size_t window = knobs.respect_client_limits ? c.client_recv_max.value_or(65535) : 65535;
    size_t inflight = 0;
    for (int id : session.outq) { auto& m = msgs[id]; if (m.st == OutMsg::sent || m.st == OutMsg::pubrecd) ++inflight; }
    std::vector<int> done;
    for (int id : session.outq) {
        auto& m = msgs[id];
        if (m.st != OutMsg::queued) continue;
        if (m.qos > 0) {
            if (inflight >= window) break;
            // lowest identifier not used by an outstanding outbound message
            std::set<uint16_t> used;
            for (int j : session.outq) if (msgs[j].pid) used.insert(msgs[j].pid);
            uint16_t pid = session.next_pid;
            while (pid == 0 || used.count(pid)) ++pid;
            session.next_pid = pid + 1;
            m.pid = pid;
            ++inflight;
        }
        send_msg(c, m, false);
        if (m.st == OutMsg::done || m.st == OutMsg::dropped) done.push_back(id);
    }
    for (int id : done) session.outq.erase(std::find(session.outq.begin(), session.outq.end(), id));
}

int Broker::publish(uint8_t qos, std::string topic, std::string payload, Props props, bool retain) {
    OutMsg m;
    m.id = (int)msgs.size(); m.qos = qos; m.topic = std::move(topic); m.payload = std::move(payload);
    m.props = std::move(props); m.retain = retain; m.created_seq = w.next_seq();
    msgs.push_back(m);
    if (!session.exists) { msgs.back().st = OutMsg::dropped; msgs.back().session_lost = true; return m.id; }
    session.outq.push_back(m.id);
    if (BConn* c = current()) pump_outbound(*c);
    else if (qos == 0) {
        // QoS 0 for an offline client: a broker may discard it
        msgs.back().st = OutMsg::dropped; msgs.back().session_lost = true;
        session.outq.pop_back();
    }
    return m.id;
}

void Broker::send_disconnect(uint8_t rc, Props props) {
    BConn* c = current();
    if (!c) return;
    Packet d; d.type = DISCONNECT; d.rc = rc; d.props = std::move(props);
    w.count("fault.server_disconnect");
    emit(*c, d, 0);
}

void Broker::restart(bool lose_session) {
    w.count("fault.broker_restart");
    for (auto& c : conns) {
        if (!c || c->client_gone) continue;
        sim::Conn* nc = net.conn(c->conn);
        if (nc && !nc->broker_closed) { nc->fault_injected = true; nc->transport_fault = true; if (!*nc->close_cause) nc->close_cause = "broker_rst"; net.broker_close(*nc, true); }
        c->client_gone = true; c->phase = BConn::closed;
    }
    if (lose_session && session.exists) {
        for (int id : session.outq) { auto& m = msgs[id]; m.session_lost = true; m.st = OutMsg::dropped; }
        session = Session{};
        w.count("fault.session_lost");
    }
}

void Broker::heal() {
    healed = true;
    hostile_window = false;
    hs_script.clear();
    session_present_script.clear();
    knobs.session_loss_p = 0;
    knobs.hostile_p = 0;
    for (auto& c : conns) if (c) c->ping_silent = false;
}

// ------------------------------------------------------------------ established phase

void Broker::handle(BConn& c, int ridx) {
    Packet p = recv[ridx].pkt;      // copy: recv may reallocate
    ns_t delay = 0; bool withhold = false, hostile_reply = false; int cut = -1, hk = 0;
    if (apply_pfaults(PfWhen::on_recv, c, p, delay, withhold, cut, hostile_reply, hk)) return;
    if (hostile_reply) { ProtoFault f; f.when = PfWhen::on_emit; f.act = PfAct::hostile_reply; f.hostile_kind = hk; pfaults.push_back(f); }
    if (cut >= 0) { ProtoFault f; f.when = PfWhen::on_emit; f.act = PfAct::cut_emit; f.arg = cut; pfaults.push_back(f); }

    if (c.phase == BConn::wait_connect) {
        if (p.type == CONNECT) handle_connect(c, ridx);
        return;    // anything else before CONNECT is recorded; C10's oracle judges it
    }
    if (c.phase == BConn::authing) {
        if (p.type != AUTH) return;
        auto r = rng_for(c.conn, "auth", (uint64_t)ridx);
        if (c.auth_rounds_left > 0) {
            Packet a; a.type = AUTH; a.rc = 0x18;
            a.props.push_back(PS(P_AUTH_METHOD, c.auth_method));
            a.props.push_back(PS(P_AUTH_DATA, "ch" + std::to_string(c.auth_rounds_left)));
            --c.auth_rounds_left;
            emit(c, a, r.range(0, 3 * MS), ridx);
        } else finish_handshake(c, c.recv.front());
        return;
    }
    if (c.phase != BConn::established) return;
    if (c.ping_silent && !healed) { withhold = true; c.withheld_any = true; }   // a silent broker still keeps its own state

    auto r = rng_for(c.conn, "handle", (uint64_t)ridx);
    auto err = [&](std::initializer_list<int> codes) -> uint8_t { return (uint8_t)*(codes.begin() + r.below(codes.size())); };
    ns_t d = delay + ack_delay(c);
    switch (p.type) {
    case PUBLISH: {
        if (p.qos == 0) break;
        c.inflight.insert(p.pid);
        c.max_inflight = std::max(c.max_inflight, c.inflight.size());
        if (c.caps.recv_max && c.inflight.size() > *c.caps.recv_max)
            violations_online.push_back("C07|recv_max|conn " + std::to_string(c.conn) + ": " + std::to_string(c.inflight.size()) +
                " QoS>0 PUBLISH in flight (pid " + std::to_string(p.pid) + ") exceeds Receive Maximum " + std::to_string(*c.caps.recv_max) +
                " at seq " + std::to_string(recv[ridx].seq));
        if (withhold) { ++c.unanswered; break; }
        if (p.qos == 1) {
            Packet a; a.type = PUBACK; a.pid = p.pid;
            if (r.chance(knobs.ack_err_p)) a.rc = err({0x10, 0x80, 0x83, 0x87, 0x90, 0x91, 0x97, 0x99});
            a.props = ack_props(c, PSlot::puback);
            emit(c, a, d, ridx);
            maybe_duplicate(c, a, d, ridx);
        } else {
            Packet a; a.type = PUBREC; a.pid = p.pid;
            bool dupid = session.inbound_qos2.count(p.pid);
            if (!dupid && r.chance(knobs.ack_err_p)) a.rc = err({0x10, 0x80, 0x83, 0x87, 0x90, 0x91, 0x97, 0x99});
            if (a.rc < 0x80) session.inbound_qos2.insert(p.pid);
            a.props = ack_props(c, PSlot::pubrec);
            emit(c, a, d, ridx);
        }
        break;
    }
    case PUBREL: {
        if (withhold) { ++c.unanswered; break; }
        Packet a; a.type = PUBCOMP; a.pid = p.pid;
        if (session.inbound_qos2.erase(p.pid) == 0) a.rc = 0x92;     // Packet Identifier not found
        a.props = ack_props(c, PSlot::pubcomp);
        emit(c, a, d, ridx);
        maybe_duplicate(c, a, d, ridx);
        break;
    }
    case SUBSCRIBE: {
        if (withhold) { ++c.unanswered; break; }
        Packet a; a.type = SUBACK; a.pid = p.pid;
        for (auto& s : p.subs) {
            uint8_t rc = std::min<uint8_t>(s.opts & 3, c.caps.max_qos.value_or(2));
            if (r.chance(knobs.ack_err_p)) rc = err({0x80, 0x83, 0x87, 0x8f, 0x91, 0x97, 0x9e, 0xa1, 0xa2});
            if (rc < 0x80) session.subs.insert(s.filter);
            a.rcs.push_back(rc);
        }
        a.props = ack_props(c, PSlot::suback);
        emit(c, a, d, ridx);
        maybe_duplicate(c, a, d, ridx);
        break;
    }
    case UNSUBSCRIBE: {
        if (withhold) { ++c.unanswered; break; }
        Packet a; a.type = UNSUBACK; a.pid = p.pid;
        for (auto& s : p.unsubs) {
            uint8_t rc = session.subs.erase(s) ? 0x00 : 0x11;
            if (r.chance(knobs.ack_err_p)) rc = err({0x80, 0x83, 0x87, 0x8f, 0x91});
            a.rcs.push_back(rc);
        }
        a.props = ack_props(c, PSlot::unsuback);
        emit(c, a, d, ridx);
        maybe_duplicate(c, a, d, ridx);
        break;
    }
    case PINGREQ: {
        if (withhold || !knobs.answer_ping) break;
        Packet a; a.type = PINGRESP;
        emit(c, a, d, ridx);
        break;
    }
    case PUBACK: case PUBREC: case PUBCOMP: {
        OutMsg* m = nullptr;
        for (int id : session.outq) if (msgs[id].pid == p.pid) { m = &msgs[id]; break; }
        bool ok = false;
        if (m) {
            if (p.type == PUBACK && m->qos == 1 && m->st == OutMsg::sent) { m->st = OutMsg::done; ok = true; }
            else if (p.type == PUBREC && m->qos == 2 && (m->st == OutMsg::sent || m->st == OutMsg::pubrecd)) {
                ok = true;
                if (p.rc >= 0x80) m->st = OutMsg::done;
                else {
                    m->st = OutMsg::pubrecd;
                    Packet rel; rel.type = PUBREL; rel.pid = p.pid;
                    if (!withhold) { int sidx = emit(c, rel, d, ridx, m->id); if (sidx >= 0) m->pubrel_idx.push_back(sidx); }
                }
            } else if (p.type == PUBCOMP && m->qos == 2 && m->st == OutMsg::pubrecd) { m->st = OutMsg::done; ok = true; }
            if (m->st == OutMsg::done) {
                session.outq.erase(std::find(session.outq.begin(), session.outq.end(), m->id));
                pump_outbound(c);
            }
        }
        if (!ok)
            violations_online.push_back(std::string("C04|stray_ack|conn ") + std::to_string(c.conn) + ": client sent " + ptype_name(p.type) +
                " pid " + std::to_string(p.pid) + " that matches no outstanding broker message of this session (seq " +
                std::to_string(recv[ridx].seq) + ")");
        break;
    }
    case DISCONNECT: {
        c.got_disconnect = true; c.disconnect_rc = p.rc; c.disconnect_idx = ridx;
        sim::Conn& nc = *net.conn(c.conn);
        if (!*nc.close_cause) nc.close_cause = "client_disconnect";
        // the server closes the network connection on DISCONNECT
        w.schedule_after(ack_delay(c), "brk_close_after_disconnect", [this, conn = c.conn]() {
            sim::Conn* nc = net.conn(conn);
            if (nc && !nc->broker_closed) net.broker_close(*nc, false);
            if (BConn* c = bc(conn)) { c->client_gone = true; c->phase = BConn::closed; }
        });
        break;
    }
    case AUTH: {
        // re-authentication
        if (withhold) break;
        Packet a; a.type = AUTH;
        const Prop* m = find_prop(p.props, P_AUTH_METHOD);
        a.props.push_back(PS(P_AUTH_METHOD, m ? m->s1 : c.auth_method));
        if (p.rc == 0x19 && knobs.auth_rounds > 0) { a.rc = 0x18; a.props.push_back(PS(P_AUTH_DATA, "rech")); }
        else { a.rc = 0x00; }
        emit(c, a, d, ridx);
        break;
    }
    default: break;
    }
}

// ------------------------------------------------------------------ hostile mutations

int hostile_kinds() { return 22; }

// position of the (single-byte) Property Length of a well-formed packet, false if the packet has none or a longer one
static bool prop_len_pos(const std::string& s, size_t& pos, size_t& body_end) {
    if (s.size() < 2 || ((uint8_t)s[1] & 0x80)) return false;          // single-byte Remaining Length only
    size_t b = 2; body_end = b + (uint8_t)s[1];
    if (body_end != s.size()) return false;
    uint8_t t = ((uint8_t)s[0]) >> 4;
    switch (t) {
    case PUBLISH: {
        if (b + 2 > s.size()) return false;
        size_t tl = ((uint8_t)s[b] << 8) | (uint8_t)s[b + 1];
        pos = b + 2 + tl + ((((uint8_t)s[0] >> 1) & 3) ? 2 : 0);
        break; }
    case CONNACK: case SUBACK: case UNSUBACK: pos = b + 2; break;
    case PUBACK: case PUBREC: case PUBREL: case PUBCOMP: pos = b + 3; break;
    case DISCONNECT: case AUTH: pos = b + 1; break;
    default: return false;
    }
    if (pos >= s.size() || ((uint8_t)s[pos] & 0x80)) return false;
    return pos + 1 + (uint8_t)s[pos] <= body_end;
}

std::string hostile_mutation(const std::string& raw, sim::Rng& r, int kind, std::string* desc) {
    std::string s = raw;
    if (kind >= 1000) {
        // exact reason code (C20 enumeration): set the reason-code byte of the packet to kind - 1000
        if (desc) *desc = "exact_reason_code";
        uint8_t v = (uint8_t)(kind - 1000);
        uint8_t t = ((uint8_t)s[0]) >> 4;
        if ((t == PUBACK || t == PUBREC || t == PUBREL || t == PUBCOMP) && s.size() >= 5) s[4] = (char)v;
        else if (t == CONNACK && s.size() >= 4) s[3] = (char)v;
        else if ((t == SUBACK || t == UNSUBACK) && s.size() >= 6) s[s.size() - 1] = (char)v;
        else if ((t == DISCONNECT || t == AUTH) && s.size() >= 3) s[2] = (char)v;
        return s;
    }
    if (kind < 0) kind = (int)r.below(hostile_kinds());
    auto set = [&](const char* d) { if (desc) *desc = d; };
    auto rl_len = [&]() { size_t i = 1; while (i < s.size() && i < 5 && (s[i] & 0x80)) ++i; return i; };   // bytes of the varint minus last
    switch (kind) {
    case 0: { // Remaining Length smaller than the body
        set("rl_smaller");
        if (s.size() >= 3 && rl_len() == 1) { uint8_t v = (uint8_t)s[1]; s[1] = (char)(v ? r.below(v) : 0); }
        break; }
    case 1: { // Remaining Length larger than the body
        set("rl_larger");
        if (s.size() >= 2 && rl_len() == 1) { uint8_t v = (uint8_t)s[1]; s[1] = (char)std::min<int>(127, v + 1 + (int)r.below(20)); }
        break; }
    case 2: { // a length byte inside the body blown up (property length / string length beyond packet)
        set("inner_length_beyond");
        if (s.size() > 3) { size_t i = 2 + r.below(s.size() - 2); s[i] = (char)(0x7f); }
        break; }
    case 3: { // 5-byte varint as Remaining Length
        set("rl_five_bytes");
        s = s.substr(0, 1) + std::string("\xff\xff\xff\xff\x01", 5) + s.substr(std::min(s.size(), (size_t)2));
        break; }
    case 4: set("reserved_flags"); s[0] = (char)(s[0] ^ (1 + r.below(15))); break;
    case 5: set("type_zero"); s[0] = (char)(s[0] & 0x0f); break;
    case 6: set("qos3_publish"); s[0] = (char)(0x30 | 0x06 | (s[0] & 0x09)); break;
    case 7: { // reply shorter than a packet identifier
        set("short_reply");
        uint8_t t = (uint8_t)s[0];
        s.assign(1, (char)t); s.push_back((char)r.below(2)); if (s[1]) s.push_back((char)r.below(256));
        break; }
    case 8: { // truncated packet: drop the tail but keep the declared length
        set("tail_dropped");
        if (s.size() > 2) s.resize(2 + r.below(s.size() - 2));
        break; }
    case 9: { // random byte flips
        set("byte_flips");
        int n = 1 + (int)r.below(4);
        for (int i = 0; i < n && !s.empty(); ++i) s[r.below(s.size())] = (char)r.below(256);
        break; }
    case 10: { // pure random bytes
        set("random_bytes");
        int n = 1 + (int)r.below(64); s.clear();
        for (int i = 0; i < n; ++i) s.push_back((char)r.below(256));
        break; }
    case 11: { // huge declared length (bigger than any client buffer)
        set("huge_length");
        s = s.substr(0, 1) + std::string("\xff\xff\xff\x7f", 4) + s.substr(std::min(s.size(), (size_t)2));
        break; }
    case 12: { // invalid reason code where one is carried (byte after pid for acks)
        set("bad_reason_code");
        uint8_t t = ((uint8_t)s[0]) >> 4;
        if ((t == PUBACK || t == PUBREC || t == PUBREL || t == PUBCOMP) && s.size() >= 5) s[4] = (char)r.pick<int>({0x01, 0x7f, 0xa3, 0xfe, 0xff});
        else if (t == CONNACK && s.size() >= 4) s[3] = (char)r.pick<int>({0x01, 0x7f, 0xa3, 0xfe, 0xff});
        else if ((t == SUBACK || t == UNSUBACK) && s.size() >= 6) s[s.size() - 1] = (char)r.pick<int>({0x03, 0x7f, 0xa3, 0xfe, 0xff});
        else if ((t == DISCONNECT || t == AUTH) && s.size() >= 3) s[2] = (char)r.pick<int>({0x01, 0x7f, 0xa3, 0xfe, 0xff});
        break; }
    case 13: { // SUBACK/UNSUBACK with wrong number of reason codes
        set("wrong_rc_count");
        uint8_t t = ((uint8_t)s[0]) >> 4;
        if ((t == SUBACK || t == UNSUBACK) && rl_len() == 1 && (uint8_t)s[1] < 120) {
            if (r.chance(0.5) && s.size() > 5) { s.pop_back(); s[1] = (char)(s[1] - 1); }
            else { int n = 1 + (int)r.below(3); for (int i = 0; i < n; ++i) s.push_back((char)r.pick<int>({0x00, 0x01, 0x80, 0xff, 0x55})); s[1] = (char)(s[1] + n); }
        }
        break; }
    case 14: { // zero-length packet of the same type
        set("empty_body");
        s = s.substr(0, 1); s.push_back(0);
        break; }
    case 15: { // append garbage after the packet (next frame is garbage)
        set("trailing_garbage");
        int n = 1 + (int)r.below(8);
        for (int i = 0; i < n; ++i) s.push_back((char)r.below(256));
        break; }
    case 16: { // server-forbidden packet types towards a client
        set("client_only_packet");
        uint8_t t = (uint8_t)r.pick<int>({CONNECT, SUBSCRIBE, UNSUBSCRIBE, PINGREQ, CONNACK});
        s.assign(1, (char)(t << 4 | (t == SUBSCRIBE || t == UNSUBSCRIBE ? 2 : 0)));
        int n = (int)r.below(6); s.push_back((char)n);
        for (int i = 0; i < n; ++i) s.push_back((char)r.below(256));
        break; }
    case 17: { // ill-formed UTF-8 somewhere
        set("bad_utf8");
        if (s.size() > 4) { size_t i = 2 + r.below(s.size() - 2); s[i] = (char)0xff; }
        break; }
    case 18: { // Property Length smaller than the properties that follow (the section ends inside a property, or what
               // is left over becomes payload / reason codes / trailing bytes); everything stays inside the packet
        set("prop_len_smaller");
        size_t pos, end;
        if (prop_len_pos(s, pos, end) && (uint8_t)s[pos] > 0) { uint8_t v = (uint8_t)s[pos]; s[pos] = (char)(v - 1 - r.below(v)); }
        break; }
    case 19: { // Property Length larger than the property section but still inside the packet (swallows payload / reason codes)
        set("prop_len_larger");
        size_t pos, end;
        if (prop_len_pos(s, pos, end)) {
            size_t after = end - (pos + 1 + (uint8_t)s[pos]);
            size_t room = std::min<size_t>(after, 127 - (uint8_t)s[pos]);
            if (room > 0) s[pos] = (char)((uint8_t)s[pos] + 1 + r.below(room));
        }
        break; }
    case 20: case 21: { // 20: a property that may appear once, twice; 21: a property that is not allowed in this packet type
        set(kind == 20 ? "duplicate_property" : "foreign_property");
        size_t pos, end;
        if (prop_len_pos(s, pos, end)) {
            uint8_t t = ((uint8_t)s[0]) >> 4;
            std::string ins;
            if (kind == 20) {
                if (t == PUBLISH) ins = std::string("\x01\x00\x01\x01", 4);                       // Payload Format Indicator twice
                else if (t == CONNACK) ins = std::string("\x21\x00\x05\x21\x00\x06", 6);           // Receive Maximum twice
                else ins = std::string("\x1f\x00\x01" "a" "\x1f\x00\x01" "b", 8);              // Reason String twice
            } else {
                if (t == CONNACK) ins = std::string("\x18\x00\x00\x00\x05", 5);                  // Will Delay Interval
                else if (t == PUBLISH) ins = std::string("\x21\x00\x05", 3);                      // Receive Maximum
                else ins = std::string("\x23\x00\x01", 3);                                      // Topic Alias
            }
            if ((uint8_t)s[pos] + ins.size() < 128 && (uint8_t)s[1] + ins.size() < 128) {
                size_t at = pos + 1 + (uint8_t)s[pos];
                s.insert(at, ins);
                s[pos] = (char)((uint8_t)s[pos] + ins.size());
                s[1] = (char)((uint8_t)s[1] + ins.size());
            }
        }
        break; }
    }
    if (s.empty()) s.push_back((char)0);
    return s;
}

} // namespace bk
