// Independent MQTT 5 reference codec (strict decoder + generator-mode encoder).
#pragma once
#include "mqtt_types.hpp"

namespace mq {

// ---- encoding (any packet type; used by the broker model and to compute sizes)
struct EncOpts {
    bool short_rc = false;      // omit reason code (and properties) where MQTT 5 allows it
    bool short_props = false;   // omit property length where MQTT 5 allows it
};
std::string encode(const Packet& p, const EncOpts& o = {});
std::string encode_varint(uint32_t v);
std::string encode_props(const Props& p);

// ---- strict decoding of one complete packet (fixed header included)
// returns empty string on success, else a description of the first violation
std::string decode_strict(const std::string& raw, Packet& out, bool from_server = false);
// as decode_strict, but Protocol Errors that do not prevent parsing (duplicate / foreign property) are accepted
std::string decode_lenient(const std::string& raw, Packet& out, bool from_server = false, bool utf8_too = false);   // utf8_too: ill-formed UTF-8 (a Malformed Packet) is let through as well, to classify what a client accepted

// ---- incremental framing of a byte stream
struct Framer {
    std::string buf;
    std::string error;       // sticky
    // append bytes; returns complete raw packets
    std::vector<std::string> feed(const char* data, size_t n);
    size_t partial() const { return buf.size(); }
};

// utf-8 well-formedness as MQTT requires (no U+0000, no surrogates, shortest form)
bool utf8_ok(const std::string& s);

} // namespace mq
