// Variant A of the real client: StreamType = sim::stream (layered-stream code paths).
#include <boost/asio.hpp>
#include "net/stream.hpp"
#define SIM_STREAM_TYPE ::sim::stream
#define SIM_MAKE_FN make_client_A
#define SIM_MAKE_MINI_FN make_mini_A
#include "client_impl.inc"
