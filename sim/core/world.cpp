#include "world.hpp"
#include <cstdio>

namespace sim {

World* g_world = nullptr;

World::World(uint64_t s) : seed(s), ioc(1), sched_rng(Rng::keyed(s, "sched")) {
    g_world = this;
}

World::~World() {
    while (!heap_.empty()) { delete heap_.top(); heap_.pop(); }
    if (g_world == this) g_world = nullptr;
}

uint64_t World::schedule(ns_t at, const char* kind, std::function<void()> fn, bool random_tie) {
    if (at < now) at = now;
    auto* e = new Event{at, random_tie ? (sched_rng.next() >> 1) + 1 : 0, ++next_event_id_, std::move(fn), kind};
    heap_.push(e);
    by_id_[e->id] = e;
    ++live_events_;
    return e->id;
}

void World::cancel_event(uint64_t id) {
    auto it = by_id_.find(id);
    if (it == by_id_.end()) return;
    it->second->fn = nullptr;   // tombstone
    by_id_.erase(it);
    --live_events_;
}

void World::drop_cancelled_top() {
    while (!heap_.empty() && !heap_.top()->fn) { delete heap_.top(); heap_.pop(); }
}

ns_t World::next_event_time() {
    drop_cancelled_top();
    return heap_.empty() ? TIME_MAX : heap_.top()->at;
}

Event* World::pop_due(ns_t t) {
    drop_cancelled_top();
    if (heap_.empty() || heap_.top()->at > t) return nullptr;
    Event* e = heap_.top(); heap_.pop();
    by_id_.erase(e->id);
    --live_events_;
    return e;
}

static inline void fire(World& w, Event* e) {
    auto fn = std::move(e->fn);
    const char* kind = e->kind;
    delete e;
    ++w.events_fired;
    (void)kind;
    fn();
}

World::StepResult World::step(ns_t horizon) {
    ++steps;
    drop_cancelled_top();
    bool due = !heap_.empty() && heap_.top()->at <= now;
    StepResult r;
    if (due && sched_rng.chance(event_first_p)) {
        fire(*this, pop_due(now));
        r = StepResult::event;
    } else {
        if (ioc.stopped()) ioc.restart();
        std::size_t n = ioc.poll_one();
        if (n) {
            ++handlers_run;
            if (live_trace) fputs("        [handler ran]\n", stderr);
            out_of_work = false;
            r = StepResult::handler;
        } else {
            out_of_work = ioc.stopped();
            if (due) {
                fire(*this, pop_due(now));
                r = StepResult::event;
            } else {
                drop_cancelled_top();
                if (heap_.empty()) { r = StepResult::idle; }
                else if (heap_.top()->at > horizon) {
                    r = StepResult::idle;
                } else {
                    now = heap_.top()->at;
                    steps_at_instant = 0;
                    r = StepResult::advanced;
                }
            }
        }
    }
    if (r == StepResult::handler || r == StepResult::event) {
        if (++steps_at_instant > max_steps_at_instant) max_steps_at_instant = steps_at_instant;
        if (after_step) after_step();
    }
    return r;
}

uint64_t World::drain_now(uint64_t max_steps) {
    uint64_t n = 0;
    while (n < max_steps) {
        auto r = step(now);
        if (r == StepResult::idle) break;
        ++n;
    }
    return n;
}

bool World::run_until(ns_t horizon, uint64_t max_steps) {
    uint64_t n = 0;
    for (;;) {
        if (n++ >= max_steps) return false;
        auto r = step(horizon);
        if (r == StepResult::idle) {
            if (now < horizon && horizon != TIME_MAX) { now = horizon; steps_at_instant = 0; }
            return true;
        }
    }
}

void World::tr(const char* kind, uint64_t a, uint64_t b, uint64_t c) {
    uint64_t h = hash_str(kind);
    h = hash_combine(h, (uint64_t)now);
    h = hash_combine(h, a); h = hash_combine(h, b); h = hash_combine(h, c);
    trace_hash = hash_combine(trace_hash, h);
    if (keep_trace) {
        char buf[256];
        snprintf(buf, sizeof buf, "%12.6f #%llu %s %llu %llu %llu", now / 1e9,
                 (unsigned long long)seq, kind, (unsigned long long)a, (unsigned long long)b, (unsigned long long)c);
        trace.emplace_back(buf);
        if (live_trace) { fputs(buf, stderr); fputc('\n', stderr); }
    }
}

void World::trs(const char* kind, const std::string& s, uint64_t a) {
    uint64_t h = hash_combine(hash_str(kind), hash_str(s));
    h = hash_combine(h, (uint64_t)now); h = hash_combine(h, a);
    trace_hash = hash_combine(trace_hash, h);
    if (keep_trace) {
        char buf[64];
        snprintf(buf, sizeof buf, "%12.6f #%llu %s %llu ", now / 1e9, (unsigned long long)seq, kind, (unsigned long long)a);
        trace.emplace_back(std::string(buf) + s);
        if (live_trace) { fputs(trace.back().c_str(), stderr); fputc('\n', stderr); }
    }
}

} // namespace sim
