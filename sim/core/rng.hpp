// Seeded PRNG with keyed sub-streams. No global state, no real clock.
#pragma once
#include <cstdint>
#include <string_view>
#include <initializer_list>

namespace sim {

inline uint64_t mix64(uint64_t x) {
    x += 0x9e3779b97f4a7c15ull;
    x = (x ^ (x >> 30)) * 0xbf58476d1ce4e5b9ull;
    x = (x ^ (x >> 27)) * 0x94d049bb133111ebull;
    return x ^ (x >> 31);
}

inline uint64_t hash_combine(uint64_t a, uint64_t b) {
    return mix64(a ^ (mix64(b) + 0x9e3779b97f4a7c15ull + (a << 6) + (a >> 2)));
}

inline uint64_t hash_str(std::string_view s) {
    uint64_t h = 0xcbf29ce484222325ull;
    for (unsigned char c : s) { h ^= c; h *= 0x100000001b3ull; }
    return mix64(h);
}

class Rng {
    uint64_t s_;
public:
    explicit Rng(uint64_t seed = 0) : s_(mix64(seed) | 1) {}
    // sub-stream keyed by purpose and integers; independent of draw order elsewhere
    static Rng keyed(uint64_t seed, std::string_view purpose,
                     std::initializer_list<uint64_t> keys = {}) {
        uint64_t h = hash_combine(seed, hash_str(purpose));
        for (auto k : keys) h = hash_combine(h, k);
        return Rng(h);
    }
    uint64_t next() {
        s_ += 0x9e3779b97f4a7c15ull;
        uint64_t z = s_;
        z = (z ^ (z >> 30)) * 0xbf58476d1ce4e5b9ull;
        z = (z ^ (z >> 27)) * 0x94d049bb133111ebull;
        return z ^ (z >> 31);
    }
    // uniform in [0, n)
    uint64_t below(uint64_t n) { return n ? next() % n : 0; }
    // uniform in [lo, hi]
    int64_t range(int64_t lo, int64_t hi) {
        if (hi <= lo) return lo;
        return lo + (int64_t)below((uint64_t)(hi - lo) + 1);
    }
    bool chance(double p) {
        if (p <= 0) return false;
        if (p >= 1) return true;
        return (next() >> 11) * (1.0 / 9007199254740992.0) < p;
    }
    template <class T> const T& pick(std::initializer_list<T> l) {
        return *(l.begin() + below(l.size()));
    }
};

} // namespace sim
