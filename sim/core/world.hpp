// Discrete-event world: virtual clock, event heap, trace hash, the io_context
// that runs the real client. Single-threaded; one World per run.
#pragma once
#include <boost/asio/io_context.hpp>
#include <boost/asio/any_io_executor.hpp>

#include <cstdint>
#include <functional>
#include <map>
#include <queue>
#include <string>
#include <vector>

#include "rng.hpp"

namespace sim {

using ns_t = int64_t;
constexpr ns_t NS = 1, US = 1000, MS = 1000000, SEC = 1000000000;
constexpr ns_t TIME_MAX = INT64_MAX;

struct Event {
    ns_t at;
    uint64_t tie;     // seeded tie-break among events at the same instant
    uint64_t id;      // creation order, final tie-break => total order
    std::function<void()> fn;
    const char* kind;
};

struct EventCmp {
    bool operator()(const Event* a, const Event* b) const {
        if (a->at != b->at) return a->at > b->at;
        if (a->tie != b->tie) return a->tie > b->tie;
        return a->id > b->id;
    }
};

class World {
public:
    explicit World(uint64_t seed);
    ~World();

    uint64_t seed;
    boost::asio::io_context ioc;

    // ---- time
    ns_t now = 0;               // virtual steady time
    ns_t wall_offset = 0;       // system_clock = epoch0 + now + wall_offset (ClockJump)
    ns_t stall_total = 0;       // total injected Stall time (slack for timing oracles)
    static constexpr ns_t EPOCH0 = 1700000000ll * SEC;
    ns_t wall_now() const { return EPOCH0 + now + wall_offset; }

    // ---- global event sequence (total order of everything observable)
    uint64_t seq = 0;
    uint64_t next_seq() { return ++seq; }

    // ---- events
    uint64_t schedule(ns_t at, const char* kind, std::function<void()> fn, bool random_tie = false);
    uint64_t schedule_after(ns_t d, const char* kind, std::function<void()> fn, bool random_tie = false) {
        ns_t at = (d >= TIME_MAX - now) ? TIME_MAX : now + d;
        return schedule(at, kind, std::move(fn), random_tie);
    }
    void cancel_event(uint64_t id);
    bool has_events() const { return live_events_ > 0; }
    ns_t next_event_time();

    // ---- stepping. returns false when idle (no ready handler, no event at all)
    enum class StepResult { handler, event, advanced, idle };
    StepResult step(ns_t horizon);      // never advances beyond horizon
    // run until quiescent at current instant (no handler ready, nothing due now)
    // returns number of steps
    uint64_t drain_now(uint64_t max_steps);
    // run until time horizon or idle; returns false if step budget exhausted
    bool run_until(ns_t horizon, uint64_t max_steps);

    uint64_t steps = 0;
    uint64_t handlers_run = 0;
    uint64_t events_fired = 0;
    uint64_t steps_at_instant = 0;   // livelock detection
    uint64_t max_steps_at_instant = 0;
    bool out_of_work = false;        // last poll_one() found the io_context without outstanding work

    // probability that a due event fires before a ready handler
    double event_first_p = 0.5;
    Rng sched_rng;

    // ---- trace hash (rolling) + optional text trace
    uint64_t trace_hash = 0x1234;
    bool keep_trace = false;
    bool live_trace = false;
    std::vector<std::string> trace;
    void tr(const char* kind, uint64_t a = 0, uint64_t b = 0, uint64_t c = 0);
    void trs(const char* kind, const std::string& s, uint64_t a = 0);

    // ---- counters (fault kinds fired, probes)
    std::map<std::string, uint64_t> counters;
    void count(const std::string& k, uint64_t n = 1) { counters[k] += n; }

    // hook called after every step (cheap invariants)
    std::function<void()> after_step;

private:
    std::priority_queue<Event*, std::vector<Event*>, EventCmp> heap_;
    std::map<uint64_t, Event*> by_id_;
    uint64_t next_event_id_ = 0;
    uint64_t live_events_ = 0;
    Event* pop_due(ns_t t);
    void drop_cancelled_top();
};

extern World* g_world;   // the world of the run in progress (one per process at a time)

} // namespace sim
