// A pending asynchronous operation owned by the simulator: type-erased handler,
// tracked outstanding work (so io_context::stopped() keeps its meaning), optional
// per-operation cancellation through the handler's cancellation slot.
// Completion mirrors Asio: posted on the I/O executor, then dispatched on the
// handler's associated executor.
#pragma once
#include <boost/asio/any_completion_handler.hpp>
#include <boost/asio/any_io_executor.hpp>
#include <boost/asio/associated_cancellation_slot.hpp>
#include <boost/asio/associated_executor.hpp>
#include <boost/asio/bind_allocator.hpp>
#include <boost/asio/dispatch.hpp>
#include <boost/asio/post.hpp>
#include <boost/asio/prefer.hpp>
#include <boost/system/error_code.hpp>

#include <functional>
#include <memory>
#include <tuple>
#include <utility>

namespace sim {

namespace asio = boost::asio;
using error_code = boost::system::error_code;

template <typename Signature> class Pending;

template <typename... Args>
class Pending<void(Args...)> : public std::enable_shared_from_this<Pending<void(Args...)>> {
public:
    using handler_type = asio::any_completion_handler<void(Args...)>;
    using ptr = std::shared_ptr<Pending>;

    // on_cancel is invoked (at most once, while still pending) when the handler's
    // cancellation slot is triggered; it must arrange completion (usually
    // complete(operation_aborted...)).
    static ptr make(handler_type h, const asio::any_io_executor& io_ex,
                    std::function<void(asio::cancellation_type_t)> on_cancel = nullptr)
    {
        auto p = std::shared_ptr<Pending>(new Pending(std::move(h), io_ex));
        if (on_cancel) {
            auto slot = asio::get_associated_cancellation_slot(p->h_);
            if (slot.is_connected()) {
                p->slot_connected_ = true;
                std::weak_ptr<Pending> w = p;
                slot.assign([w, on_cancel = std::move(on_cancel)](asio::cancellation_type_t t) {
                    auto sp = w.lock();
                    if (!sp || !sp->pending()) return;
                    sp->in_slot_handler_ = true;
                    on_cancel(t);
                    if (sp) sp->in_slot_handler_ = false;
                });
            }
        }
        return p;
    }

    bool pending() const { return static_cast<bool>(h_); }

    // Post the completion. Safe to call from anywhere (world events, slot handlers).
    void complete(Args... args) {
        if (!h_) return;
        if (slot_connected_ && !in_slot_handler_) {
            auto slot = asio::get_associated_cancellation_slot(h_);
            if (slot.is_connected()) slot.clear();
        }
        auto h = std::move(h_);
        h_ = nullptr;
        auto hex = asio::get_associated_executor(h, io_ex_);
        auto io_work = std::move(io_work_);
        auto h_work = std::move(h_work_);
        asio::post(io_ex_,
            [h = std::move(h), hex, io_work = std::move(io_work), h_work = std::move(h_work),
             tup = std::make_tuple(std::move(args)...)]() mutable {
                auto alloc = asio::get_associated_allocator(h);
                (void)alloc;
                asio::dispatch(hex,
                    [h = std::move(h), tup = std::move(tup)]() mutable {
                        std::apply([&h](auto&&... a) { std::move(h)(std::move(a)...); }, std::move(tup));
                    });
                (void)io_work; (void)h_work;
            });
    }

    // drop without completing (destroys the handler) - used only at world teardown
    void abandon() { h_ = nullptr; io_work_ = {}; h_work_ = {}; }

private:
    Pending(handler_type h, const asio::any_io_executor& io_ex)
        : h_(std::move(h)), io_ex_(io_ex),
          io_work_(asio::prefer(io_ex, asio::execution::outstanding_work.tracked)),
          h_work_(asio::prefer(asio::get_associated_executor(h_, io_ex),
                               asio::execution::outstanding_work.tracked))
    {}

    handler_type h_;
    asio::any_io_executor io_ex_;
    asio::any_io_executor io_work_;
    asio::any_completion_executor h_work_;
    bool slot_connected_ = false;
    bool in_slot_handler_ = false;
};

} // namespace sim
