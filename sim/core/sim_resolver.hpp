// sim_resolver: stands in for asio::ip::tcp::resolver through the guarded member-type
// hook in impl/endpoints.hpp. Mirrors the real resolver of Boost 1.83: constructible
// from an executor, get_executor(), async_resolve(host, service, token) with signature
// void(error_code, results_type), and NO per-operation cancellation.
#pragma once
#include <boost/asio/any_io_executor.hpp>
#include <boost/asio/async_result.hpp>
#include <boost/asio/ip/tcp.hpp>

#include <functional>
#include <string>
#include <vector>

#include "pending.hpp"
#include "world.hpp"

namespace sim {

using resolver_results = boost::asio::ip::tcp::resolver::results_type;

struct ResolveDecision {
    error_code ec;
    std::vector<boost::asio::ip::tcp::endpoint> endpoints;
    ns_t delay = 0;
};

struct ResolveRec {
    uint64_t seq = 0; ns_t t = 0; std::string host, port;
    ResolveDecision decision; uint64_t seq_done = 0; ns_t t_done = 0;
    int inst = -1;    // which resolver object (one per client service object) issued it
};

struct ResolverModel {
    std::function<ResolveDecision(const std::string& host, const std::string& port, int nth)> policy;
    std::vector<ResolveRec> log;
    int pending = 0;
    int next_inst = 0;
};
extern ResolverModel* g_resolver;

void start_resolve(const asio::any_io_executor& ex, std::string host, std::string port,
                   asio::any_completion_handler<void(error_code, resolver_results)> h, int inst = -1);

class sim_resolver {
public:
    using executor_type = asio::any_io_executor;
    using results_type = resolver_results;

    template <typename Executor>
    explicit sim_resolver(Executor ex) : ex_(std::move(ex)), inst_(g_resolver ? g_resolver->next_inst++ : -1) {}

    executor_type get_executor() noexcept { return ex_; }
    void cancel() {}

    template <typename ResolveToken>
    decltype(auto) async_resolve(const std::string& host, const std::string& service, ResolveToken&& token) {
        return asio::async_initiate<ResolveToken, void(error_code, results_type)>(
            [ex = ex_, inst = inst_](auto handler, std::string host, std::string service) {
                start_resolve(ex, std::move(host), std::move(service),
                    asio::any_completion_handler<void(error_code, results_type)>(std::move(handler)), inst);
            }, token, host, service);
    }
private:
    executor_type ex_;
    int inst_ = -1;
};

} // namespace sim
