#include "sim_resolver.hpp"

namespace sim {

ResolverModel* g_resolver = nullptr;

void start_resolve(const asio::any_io_executor& ex, std::string host, std::string port,
                   asio::any_completion_handler<void(error_code, resolver_results)> h, int inst)
{
    // no cancellation: like the real resolver, the operation always runs to completion
    auto op = Pending<void(error_code, resolver_results)>::make(std::move(h), ex);
    ResolveRec rec;
    rec.seq = g_world->next_seq(); rec.t = g_world->now; rec.host = host; rec.port = port; rec.inst = inst;
    int nth = (int)g_resolver->log.size();
    rec.decision = g_resolver->policy ? g_resolver->policy(host, port, nth) : ResolveDecision{};
    g_world->trs("resolve_start", host + ":" + port, nth);
    size_t idx = g_resolver->log.size();
    g_resolver->log.push_back(rec);
    ++g_resolver->pending;
    g_world->schedule_after(rec.decision.delay, "resolve_done", [op, idx, host, port]() {
        auto& r = g_resolver->log[idx];
        r.seq_done = g_world->next_seq(); r.t_done = g_world->now;
        --g_resolver->pending;
        g_world->tr("resolve_done", idx, r.decision.ec.value(), r.decision.endpoints.size());
        resolver_results res;
        if (!r.decision.ec)
            res = resolver_results::create(r.decision.endpoints.begin(), r.decision.endpoints.end(), host, port);
        op->complete(r.decision.ec, std::move(res));
    });
}

} // namespace sim
