// boost::asio::sim_steady_timer - drop-in for asio::steady_timer on virtual time.
// Substituted for `steady_timer` by token interposition in the client TU.
#pragma once
#include <boost/asio/async_result.hpp>
#include <boost/asio/error.hpp>
#include <boost/asio/execution_context.hpp>

#include <chrono>
#include <list>
#include <memory>
#include <type_traits>

#include "pending.hpp"
#include "world.hpp"

namespace sim {

struct TimerImpl : std::enable_shared_from_this<TimerImpl> {
    using P = Pending<void(error_code)>;
    struct Wait { P::ptr op; uint64_t event_id; };
    asio::any_io_executor ex;
    ns_t expiry = 0;
    std::list<Wait> waits;
    uint64_t timer_id = 0;

    explicit TimerImpl(asio::any_io_executor e);
    ~TimerImpl();
    std::size_t cancel_all();
    void start_wait(P::handler_type h);
};

// registry of live timers so that the simulator can place events around deadlines
struct TimerRegistry {
    static std::vector<ns_t> pending_deadlines();
    static void reset();
};

} // namespace sim

namespace boost { namespace asio {

class sim_steady_timer {
public:
    using executor_type = any_io_executor;
    using clock_type = std::chrono::steady_clock;
    using duration = clock_type::duration;
    using time_point = clock_type::time_point;

    explicit sim_steady_timer(const executor_type& ex)
        : impl_(std::make_shared<sim::TimerImpl>(ex)) {}

    template <typename ExecutionContext>
    explicit sim_steady_timer(ExecutionContext& ctx,
        std::enable_if_t<std::is_convertible_v<ExecutionContext&, execution_context&>, int> = 0)
        : impl_(std::make_shared<sim::TimerImpl>(ctx.get_executor())) {}

    sim_steady_timer(const executor_type& ex, const duration& d) : sim_steady_timer(ex) { expires_after(d); }

    sim_steady_timer(sim_steady_timer&&) = default;
    sim_steady_timer& operator=(sim_steady_timer&& o) {
        if (impl_) impl_->cancel_all();
        impl_ = std::move(o.impl_);
        return *this;
    }
    sim_steady_timer(const sim_steady_timer&) = delete;
    sim_steady_timer& operator=(const sim_steady_timer&) = delete;

    ~sim_steady_timer() { if (impl_) impl_->cancel_all(); }

    executor_type get_executor() noexcept { return impl_->ex; }

    std::size_t cancel() { return impl_->cancel_all(); }
    std::size_t cancel(boost::system::error_code& ec) { ec = {}; return impl_->cancel_all(); }

    std::size_t expires_after(const duration& d) {
        std::size_t n = impl_->cancel_all();
        auto now = sim::g_world->now;
        int64_t cnt = std::chrono::duration_cast<std::chrono::nanoseconds>(d).count();
        if (cnt < 0) cnt = 0;
        // saturating add (the client passes duration::max() for "never")
        impl_->expiry = (cnt >= sim::TIME_MAX - now) ? sim::TIME_MAX : now + cnt;
        return n;
    }
    std::size_t expires_at(const time_point& tp) {
        std::size_t n = impl_->cancel_all();
        auto cnt = std::chrono::duration_cast<std::chrono::nanoseconds>(tp.time_since_epoch()).count();
        impl_->expiry = cnt;
        return n;
    }
    time_point expiry() const {
        return time_point(std::chrono::duration_cast<duration>(std::chrono::nanoseconds(impl_->expiry)));
    }

    template <typename WaitToken>
    decltype(auto) async_wait(WaitToken&& token) {
        return async_initiate<WaitToken, void(boost::system::error_code)>(
            initiate_wait{impl_}, token);
    }

private:
    struct initiate_wait {
        std::shared_ptr<sim::TimerImpl> impl;
        template <typename Handler>
        void operator()(Handler&& h) const {
            impl->start_wait(sim::TimerImpl::P::handler_type(std::forward<Handler>(h)));
        }
    };
    std::shared_ptr<sim::TimerImpl> impl_;
};

}} // namespace boost::asio
