#include "sim_timer.hpp"
#include <map>

namespace sim {

static std::map<uint64_t, TimerImpl*>& live_timers() {
    static std::map<uint64_t, TimerImpl*> m;
    return m;
}
static uint64_t g_next_timer_id = 0;

TimerImpl::TimerImpl(asio::any_io_executor e) : ex(std::move(e)) {
    timer_id = ++g_next_timer_id;
    live_timers()[timer_id] = this;
}

TimerImpl::~TimerImpl() { live_timers().erase(timer_id); }

std::size_t TimerImpl::cancel_all() {
    std::size_t n = 0;
    auto ws = std::move(waits);
    waits.clear();
    for (auto& w : ws) {
        if (w.event_id) g_world->cancel_event(w.event_id);
        if (w.op->pending()) {
            ++n;
            g_world->tr("timer_cancel", timer_id);
            w.op->complete(asio::error::operation_aborted);
        }
    }
    return n;
}

void TimerImpl::start_wait(P::handler_type h) {
    auto self = shared_from_this();
    std::weak_ptr<TimerImpl> wself = self;
    auto op_holder = std::make_shared<P::ptr>();
    auto op = P::make(std::move(h), ex,
        [wself, op_holder](asio::cancellation_type_t) {
            auto s = wself.lock();
            if (!s) return;
            for (auto it = s->waits.begin(); it != s->waits.end(); ++it) {
                if (it->op == *op_holder) {
                    if (it->event_id) g_world->cancel_event(it->event_id);
                    auto op = it->op;
                    s->waits.erase(it);
                    g_world->tr("timer_opcancel", s->timer_id);
                    op->complete(asio::error::operation_aborted);
                    return;
                }
            }
        });
    *op_holder = op;
    uint64_t ev = 0;
    if (expiry != TIME_MAX) {
        std::weak_ptr<P> wop = op;
        ev = g_world->schedule(expiry, "timer", [wself, wop]() {
            auto s = wself.lock();
            auto op = wop.lock();
            if (!s || !op) return;
            for (auto it = s->waits.begin(); it != s->waits.end(); ++it) {
                if (it->op == op) {
                    s->waits.erase(it);
                    g_world->tr("timer_fire", s->timer_id);
                    g_world->next_seq();
                    op->complete(error_code{});
                    return;
                }
            }
        });
    }
    waits.push_back(Wait{op, ev});
}

std::vector<ns_t> TimerRegistry::pending_deadlines() {
    std::vector<ns_t> out;
    for (auto& [id, t] : live_timers())
        if (!t->waits.empty() && t->expiry != TIME_MAX) out.push_back(t->expiry);
    return out;
}

void TimerRegistry::reset() { live_timers().clear(); g_next_timer_id = 0; }

} // namespace sim
