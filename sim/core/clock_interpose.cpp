// Virtualised clocks. The executable's definitions of std::chrono::system_clock::now()
// and steady_clock::now() take precedence over libstdc++.so's (ELF interposition);
// time() is redirected with -Wl,--wrap=time. A start-up self-test (main) checks that
// the interposition took effect.
#include <chrono>
#include <ctime>
#include <sys/syscall.h>
#include <unistd.h>

#include "world.hpp"

namespace sim {
int64_t real_ns() {
    struct timespec ts;
    syscall(SYS_clock_gettime, CLOCK_MONOTONIC, &ts);
    return (int64_t)ts.tv_sec * 1000000000ll + ts.tv_nsec;
}
uint64_t g_clock_reads_system = 0, g_clock_reads_steady = 0, g_time_calls = 0;
}

namespace std { namespace chrono { inline namespace _V2 {

system_clock::time_point system_clock::now() noexcept {
    ++sim::g_clock_reads_system;
    int64_t ns = sim::g_world ? sim::g_world->wall_now() : sim::World::EPOCH0;
    return time_point(duration_cast<duration>(nanoseconds(ns)));
}

steady_clock::time_point steady_clock::now() noexcept {
    ++sim::g_clock_reads_steady;
    int64_t ns = sim::g_world ? sim::g_world->now : 0;
    return time_point(duration_cast<duration>(nanoseconds(ns)));
}

}}} // namespace std::chrono::_V2

extern "C" time_t __wrap_time(time_t* t) {
    ++sim::g_time_calls;
    // back-off jitter seed: derived from the run seed and the virtual clock only
    time_t v = sim::g_world
        ? (time_t)((sim::g_world->wall_now() / 1000000000ll) ^ (time_t)(sim::g_world->seed & 0xffff))
        : (time_t)1700000000;
    if (t) *t = v;
    return v;
}
