// Minimisation of a failing plan (ddmin over steps, then per-step simplification),
// restricted to one violation class (property/oracle).
#include <boost/json.hpp>
#include <cstdio>
#include <fstream>
#include <functional>

#include "shrink.hpp"

namespace app {
namespace json = boost::json;

static bool fails_with(const Plan& p, const std::string& sig, Violation* vout, uint64_t* hash) {
    if (p.knobs.focus == "C19diff") {
        Sim* s0 = nullptr;
        auto vs = run_diff(p, &s0, nullptr);
        for (auto& v : vs) if (v.signature() == sig) { if (vout) *vout = v; if (hash) *hash = s0->w.trace_hash; return true; }
        return false;
    }
    Sim s(p, false);
    s.execute();
    auto vs = check_all(s, sig.substr(0, sig.find('/')));
    for (auto& v : vs) if (v.signature() == sig) { if (vout) *vout = v; if (hash) *hash = s.w.trace_hash; return true; }
    return false;
}

bool plan_from_replay(const std::string& text, Plan& out, std::string* err) {
    try {
        auto v = json::parse(text);
        if (v.is_object() && v.as_object().contains("plan"))
            return plan_from_json(json::serialize(v.as_object().at("plan")), out, err);
    } catch (const std::exception& e) { if (err) *err = e.what(); return false; }
    return plan_from_json(text, out, err);
}

std::string replay_to_json(const Plan& p, const Violation& v, uint64_t trace_hash, int reruns, size_t orig_steps) {
    json::object o;
    o["property"] = v.prop; o["oracle"] = v.oracle; o["signature"] = v.signature(); o["detail"] = v.detail;
    o["seed"] = p.seed; o["variant"] = p.knobs.variant; o["profile"] = p.knobs.profile;
    char hb[32]; snprintf(hb, sizeof hb, "%llx", (unsigned long long)trace_hash);
    o["trace_hash"] = hb; o["shrink_reruns"] = reruns; o["original_steps"] = orig_steps; o["steps"] = p.steps.size();
    json::array kinds; for (auto& s : p.steps) kinds.push_back(json::value(sk_name(s.kind)));
    o["step_kinds"] = kinds;
    o["plan"] = json::parse(plan_to_json(p));
    return json::serialize(o);
}

int shrink_main(const Plan& p0, const std::string& sig, const std::string& out, int budget) {
    Violation v; uint64_t h = 0;
    int reruns = 0;
    // every candidate is written down before it runs: if it kills the process (sanitizer report, abort), the driver finds the
    // plan that did it in <out>.cand and reports it as a crash of its own
    std::string cand = out.empty() ? std::string() : out + ".cand";
    auto test = [&](const Plan& p) {
        ++reruns;
        if (!cand.empty()) { std::ofstream f(cand); f << plan_to_json(p) << "\n"; }
        bool r = fails_with(p, sig, &v, &h);
        if (!cand.empty()) std::remove(cand.c_str());
        return r;
    };
    if (!test(p0)) { fprintf(stderr, "shrink: plan does not fail with %s\n", sig.c_str()); return 3; }
    // determinism gate: same plan twice, same hash
    { uint64_t h2 = 0; Violation v2; if (!fails_with(p0, sig, &v2, &h2) || h2 != h) { fprintf(stderr, "shrink: non-deterministic (hash %llx vs %llx)\n", (unsigned long long)h, (unsigned long long)h2); return 2; } }
    Plan cur = p0;
    // ---- ddmin over steps
    size_t n = 2;
    while (cur.steps.size() >= 2 && reruns < budget) {
        size_t len = cur.steps.size();
        size_t chunk = (len + n - 1) / n;
        bool reduced = false;
        for (size_t start = 0; start < len && reruns < budget; start += chunk) {
            Plan t = cur;
            size_t end = std::min(len, start + chunk);
            t.steps.erase(t.steps.begin() + start, t.steps.begin() + end);
            if (t.steps.empty()) continue;
            if (test(t)) { cur = std::move(t); n = std::max<size_t>(n - 1, 2); reduced = true; break; }
        }
        if (!reduced) {
            if (n >= len) break;
            n = std::min(len, n * 2);
        }
    }
    // single-step removal pass
    for (size_t i = 0; i < cur.steps.size() && reruns < budget;) {
        if (cur.steps.size() == 1) break;
        Plan t = cur; t.steps.erase(t.steps.begin() + i);
        if (test(t)) cur = std::move(t); else ++i;
    }
    // ---- per-step simplification
    for (size_t i = 0; i < cur.steps.size() && reruns < budget; ++i) {
        auto attempt = [&](std::function<void(Step&)> f) {
            if (reruns >= budget) return;
            Plan t = cur; f(t.steps[i]);
            if (plan_to_json(t) == plan_to_json(cur)) return;
            if (test(t)) cur = std::move(t);
        };
        attempt([](Step& s) { s.delay = 0; });
        attempt([](Step& s) { s.props.clear(); });
        attempt([](Step& s) { if (s.kind == SK::Publish || s.kind == SK::BrokerPublish) { auto c = s.s2.find(':'); if (c != std::string::npos) s.s2.resize(c + 1); } });
        attempt([](Step& s) { if (s.subs.size() > 1) s.subs.resize(1); if (s.topics.size() > 1) s.topics.resize(1); });
        attempt([](Step& s) { s.c = 0; });
    }
    // knob simplification
    auto kattempt = [&](std::function<void(Knobs&)> f) {
        if (reruns >= budget) return;
        Plan t = cur; f(t.knobs);
        if (plan_to_json(t) == plan_to_json(cur)) return;
        if (test(t)) cur = std::move(t);
    };
    kattempt([](Knobs& k) { k.net.short_write_p = 0; k.net.seg_split_p = 0; });
    kattempt([](Knobs& k) { k.net.lat_max = 0; });
    kattempt([](Knobs& k) { k.net.chunk_mode = 0; });
    kattempt([](Knobs& k) { k.client.will.reset(); k.client.username.clear(); k.client.password.clear(); });
    kattempt([](Knobs& k) { k.client.connect_props.clear(); });
    kattempt([](Knobs& k) { k.broker.ack_props_p = 0; k.broker.ack_err_p = 0; });
    kattempt([](Knobs& k) { k.broker.session_loss_p = 0; });
    kattempt([](Knobs& k) { if (k.hosts.size() > 1) { k.hosts.resize(1); k.client.brokers = k.hosts[0].name + ":" + std::to_string(k.hosts[0].port); } });
    // final: make sure the minimised plan still fails and is deterministic
    uint64_t h1 = 0, h2 = 0; Violation v1, v2;
    if (!fails_with(cur, sig, &v1, &h1) || !fails_with(cur, sig, &v2, &h2) || h1 != h2) { fprintf(stderr, "shrink: minimised plan not reproducible\n"); return 2; }
    std::string js = replay_to_json(cur, v1, h1, reruns, p0.steps.size());
    if (!out.empty()) { std::ofstream f(out); f << js << "\n"; }
    printf("SHRUNK sig=%s steps=%zu->%zu reruns=%d hash=%llx out=%s\n", sig.c_str(), p0.steps.size(), cur.steps.size(), reruns,
           (unsigned long long)h1, out.c_str());
    printf("DETAIL %s\n", v1.detail.c_str());
    return 0;
}

} // namespace app
