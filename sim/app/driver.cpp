#include "run.hpp"

#include <boost/asio/error.hpp>
#include <boost/asio/ip/address_v4.hpp>
#include <cstdio>

#include "../core/sim_timer.hpp"

namespace sim { extern std::function<ns_t(int)> g_shutdown_delay; }

namespace app {

using sim::MS; using sim::SEC; using sim::US;
namespace asio = boost::asio;

Sim::Sim(const Plan& p, bool keep_trace)
    : plan(p), w(p.seed), net(w), broker(w, net)
{
    w.keep_trace = keep_trace;
    w.live_trace = keep_trace && getenv("SIM_LIVE") != nullptr;
    w.event_first_p = p.knobs.event_first_p;
    net.knobs = p.knobs.net;
    broker.knobs = p.knobs.broker;
    sim::TimerRegistry::reset();
    sim::g_resolver = &resolver;
    net.stall_cb = [this](ns_t d) { w.now += d; w.stall_total += d; mark(MarkKind::stall, -1, d); w.count("fault.stall"); };

    resolver.policy = [this](const std::string& host, const std::string& port, int nth) {
        sim::ResolveDecision d;
        { uint64_t ob = 0; auto e = broker.unfinished_attempt(-1, &ob); if (!e.empty()) broker.overlaps.push_back({ob, w.seq, true, "async_resolve #" + std::to_string(nth) + " started while " + e}); }
        auto r = sim::Rng::keyed(w.seed, "resolve", {(uint64_t)nth});
        int h = host_of(host);
        d.delay = r.range(0, plan.knobs.resolve_delay_max);
        if (h < 0) { d.ec = asio::error::host_not_found; return d; }
        int script = -1;
        if (!healed && !resolve_script.empty()) { script = resolve_script.front(); resolve_script.pop_front(); }
        if (script == 0) { d.ec = asio::error::host_not_found; w.count("fault.resolve_fail"); return d; }
        if (script == 1) { d.delay = 5 * SEC + r.range(1, 2 * SEC); w.count("fault.resolve_slow"); }
        if (script == 2) { d.delay = r.range(1 * SEC, 4900 * MS); w.count("fault.resolve_slowish"); }
        const auto& hc = plan.knobs.hosts[h];
        int prt = atoi(port.c_str());
        for (int j = 0; j < hc.n_endpoints; ++j)
            d.endpoints.emplace_back(asio::ip::address_v4((10u << 24) | ((uint32_t)h << 8) | (uint32_t)(j + 1)), (unsigned short)prt);
        if (d.endpoints.empty()) d.ec = asio::error::host_not_found;
        if (hc.n_endpoints > 1) w.count("probe.multi_endpoint_answer");
        return d;
    };

    net.connect_policy = [this](sim::Conn& c) {
        sim::ConnectDecision d;
        uint32_t ip = c.ep.address().to_v4().to_uint();
        c.host_idx = (int)((ip >> 8) & 0xff); c.ep_idx = (int)(ip & 0xff) - 1;
        auto r = sim::Rng::keyed(w.seed, "connect", {(uint64_t)c.id});
        d.delay = r.chance(0.3) ? 0 : r.range(0, plan.knobs.net.connect_lat_max);
        if (!healed && !connect_script.empty()) {
            d.outcome = connect_script.front(); connect_script.pop_front();
            if (d.outcome == sim::ConnectOutcome::refused) w.count("fault.connect_refused");
            if (d.outcome == sim::ConnectOutcome::unreachable) w.count("fault.connect_unreachable");
            if (d.outcome == sim::ConnectOutcome::hang) w.count("fault.connect_hang");
            if (d.outcome != sim::ConnectOutcome::ok) c.fault_injected = true;
        }
        if (c.host_idx >= 0 && c.host_idx < (int)plan.knobs.hosts.size()) {
            const auto& hc = plan.knobs.hosts[c.host_idx];
            if (c.ep_idx >= 0 && (hc.dead_mask >> c.ep_idx) & 1) {
                if (d.outcome == sim::ConnectOutcome::ok) { d.outcome = sim::ConnectOutcome::refused; w.count("fault.dead_endpoint"); }
            }
        }
        return d;
    };

    sim::g_shutdown_delay = [this](int conn) -> ns_t {
        if (!shutdown_delays.empty() && !healed) { ns_t d = shutdown_delays.front(); shutdown_delays.pop_front(); w.count("fault.slow_shutdown"); return d; }
        auto r = sim::Rng::keyed(w.seed, "shutdown", {(uint64_t)conn});
        if (plan.knobs.shutdown_delay_max <= 0 || healed) return 0;
        return r.chance(0.5) ? 0 : r.range(0, plan.knobs.shutdown_delay_max);
    };

    make_client();
}

Sim::~Sim() {
    // a Sim that outlived its run (the reference run of the chunking differential) may be destroyed after other
    // worlds came and went: timers and streams of a client that was never torn down (aborted run) must find theirs
    sim::World* prev = sim::g_world;
    sim::g_world = &w;
    client.reset();
    // run remaining handlers so that nothing holding references into this Sim survives
    for (int i = 0; i < 100000; ++i) {
        if (w.ioc.stopped()) w.ioc.restart();
        if (!w.ioc.poll_one()) break;
    }
    if (prev && prev != &w) sim::g_world = prev;
    sim::g_shutdown_delay = nullptr;
    sim::g_resolver = nullptr;
}

int Sim::host_of(const std::string& name) const {
    for (size_t i = 0; i < plan.knobs.hosts.size(); ++i) if (plan.knobs.hosts[i].name == name) return (int)i;
    return -1;
}

sim::Conn* Sim::current_conn() {
    for (int i = (int)net.conns.size() - 1; i >= 0; --i) {
        auto& c = *net.conns[i];
        if (c.st == sim::Conn::established && !c.client_closed && !c.dead) return &c;
    }
    return nullptr;
}

void Sim::make_client() {
    if (plan.knobs.focus == "C11x") client = plan.knobs.variant == 0 ? make_mini_A(w.ioc, this, &signals) : make_mini_B(w.ioc, this, &signals);
    else client = plan.knobs.variant == 0 ? make_client_A(w.ioc, this, &signals) : make_client_B(w.ioc, this, &signals);
    client->configure(plan.knobs.client);
    ++client_gen; ++svc_gen;
    running = false;
}

void Sim::mark(MarkKind k, int op, int64_t arg) {
    marks.push_back(Mark{k, w.next_seq(), w.now, op, arg, svc_gen, client_gen});
}

// ---------------------------------------------------------------- observer

void Sim::log_resolve(error_code ec, const std::string& host, const std::string& port, size_t n) {
    LogRec r; r.k = LogRec::resolve; r.seq = w.next_seq(); r.t = w.now; r.ec = ec.value(); r.s1 = host; r.s2 = port; r.n = (int)n;
    logs.push_back(r);
}
void Sim::log_tcp_connect(error_code ec, const std::string& ip, uint16_t port) {
    LogRec r; r.k = LogRec::tcp_connect; r.seq = w.next_seq(); r.t = w.now; r.ec = ec.value(); r.s1 = ip; r.n = port;
    logs.push_back(r);
}
void Sim::log_connack(uint8_t rc, bool sp, const mq::Props& props) {
    LogRec r; r.k = LogRec::connack; r.seq = w.next_seq(); r.t = w.now; r.rc = rc; r.session_present = sp; r.props = props;
    logs.push_back(r);
    connack_log_step = w.steps;
    w.tr("log_connack", rc, sp);
}
void Sim::log_disconnect(uint8_t rc, const mq::Props& props) {
    LogRec r; r.k = LogRec::disconnect; r.seq = w.next_seq(); r.t = w.now; r.rc = rc; r.props = props;
    logs.push_back(r);
    w.tr("log_disconnect", rc);
}
std::pair<bool, std::string> Sim::auth_step(int step, const std::string& data, bool* posted) {
    if (posted) *posted = plan.knobs.client.auth_posted;
    LogRec r; r.k = LogRec::auth_step; r.seq = w.next_seq(); r.t = w.now; r.step = step; r.s1 = data;
    bool fail = (!healed && auth_fail_step == step);
    if (fail) { w.count("fault.auth_fail"); auth_fail_step = -1; }
    r.n = fail ? 1 : 0;
    // the connection attempt the authenticator is working for (attempts never overlap: C11); -1 = re-authentication on an
    // established connection. server_final of a handshake is requested by the handler that logged the CONNACK.
    bool hs_phase;
    if (step == 2) hs_phase = (connack_log_step == w.steps);
    else if (in_reauth_call) hs_phase = false;
    else { hs_phase = true; for (auto& l : logs) if (l.k == LogRec::connack && l.rc == 0 && !net.conns.empty() && l.seq > net.conns.back()->seq_begin) hs_phase = false; }
    r.ec = hs_phase ? (int)net.conns.size() - 1 : -1;
    logs.push_back(r);
    return {fail, "a" + std::to_string(step) + ":" + data.substr(0, 8)};
}

// ---------------------------------------------------------------- ops

int Sim::new_op(OpKind k, const Step& s) {
    OpRec o;
    o.id = (int)ops.size(); o.step_id = s.id; o.kind = k;
    o.init_seq = w.next_seq(); o.init_t = w.now;
    o.client_gen = client_gen; o.svc_gen = svc_gen; o.client_running = running;
    o.after_heal = healed;
    if (client) {
        o.connack_snapshot = client->connack_properties();
        // the client holds a CONNACK iff a successful one was logged for this service generation
        for (auto it = logs.rbegin(); it != logs.rend(); ++it)
            if (it->k == LogRec::connack) { o.has_connack = it->rc == 0; break; }
    }
    ops.push_back(std::move(o));
    return (int)ops.size() - 1;
}

CompletionFn Sim::cb(int op) {
    return [this, op](Completion c) {
        Done d; d.seq = w.next_seq(); d.t = w.now; d.inside_init = (cur_init_op == op); d.c = std::move(c);
        w.tr("op_done", op, (uint64_t)d.c.ec.value(), d.c.rc);
        ops[op].dones.push_back(std::move(d));
    };
}

void Sim::apply_conn_fault(const Step& s, sim::Conn& c) {
    if (s.kind == SK::FByteCut) {
        sim::ByteTrigger t;
        t.dir = s.a == 0 ? sim::Dir::c2b : sim::Dir::b2c;
        size_t base = s.a == 0 ? c.c2b_delivered : c.b2c_arrived;
        t.offset = base + (size_t)std::max(1, s.b);
        t.act = s.c == 0 ? sim::FaultAct::rst : s.c == 1 ? sim::FaultAct::fin : sim::FaultAct::blackhole;
        t.lose_inflight = s.d != 0;
        t.label = std::string("bytecut_") + (s.a == 0 ? "c2b" : "b2c") + "_" + (s.c == 0 ? "rst" : s.c == 1 ? "fin" : "blackhole");
        c.triggers.push_back(t);
    } else if (s.kind == SK::FWriteErr) {
        sim::WriteFault wf;
        wf.nth = c.write_calls + std::max(0, s.a);
        wf.deliver_permille = s.b;
        switch (s.c % 4) {
        case 0: wf.ec = asio::error::connection_reset; break;
        case 1: wf.ec = asio::error::broken_pipe; break;
        case 2: wf.ec = asio::error::connection_aborted; break;
        default: wf.ec = asio::error::timed_out; break;
        }
        c.write_faults.push_back(wf);
    }
}

void Sim::exec_step(const Step& s, ns_t* next_override) {
    w.trs("step", step_str(s), s.id);
    switch (s.kind) {
    case SK::Run: {
        if (!client) break;
        // async_run while a previous async_run of the same service is still outstanding is API misuse
        if (running) break;
        if (last_run_op >= 0 && ops[last_run_op].svc_gen == svc_gen && ops[last_run_op].dones.empty()) break;
        int op = new_op(OpKind::run, s);
        last_run_op = op;
        if (s.c) ops[op].slot = client->new_slot();
        cur_init_op = op;
        running = true; ever_run = true;
        mark(MarkKind::run, op);
        client->async_run(ops[op].slot, cb(op));
        ops[op].init_done_seq = w.next_seq();
        cur_init_op = -1;
        break;
    }
    case SK::Publish: {
        if (!client) break;
        if (!running) { w.count("skipped.not_running"); break; }   // using a client that is not running is API misuse
        int op = new_op(OpKind::publish, s);
        auto& o = ops[op];
        o.qos = s.a; o.retain = s.b; o.topic = s.s1; o.payload = s.s2; o.props = s.props;
        if (s.c) o.slot = client->new_slot();
        cur_init_op = op;
        CompletionFn fn = cb(op);
        if (s.d > 0) {
            // chained publishing: the application initiates the next publish from inside the completion handler of this one
            // (a common usage pattern; it makes packet identifiers be re-used the moment they become free)
            Step next = s;
            next.d = s.d - 1; next.delay = 0; next.c = 0;
            next.id = s.id + 100000 * s.d;         // fresh tag, unique per chain (step ids stay far below 100000)
            next.s1 = "t/" + std::to_string(next.id);
            auto colon = s.s2.find(':');
            next.s2 = std::to_string(next.id) + (colon == std::string::npos ? std::string(":") : s.s2.substr(colon));
            fn = [this, inner = std::move(fn), next](Completion c) {
                bool aborted = c.ec == boost::asio::error::operation_aborted;
                inner(std::move(c));
                if (!aborted && client && running) {
                    w.count("probe.chained_publish");
                    exec_step(next, nullptr);
                    // repeated-acknowledgement quirk, placed: the next publish (which re-uses the identifier that has just
                    // become free) is queued behind a write the transport has not completed; the broker repeats the final
                    // acknowledgements of its last few exchanges now, so that it reaches the client while that request is still waiting
                    if (plan.knobs.broker.dup_ack_p > 0 && !healed) {
                        if (sim::Conn* cc = current_conn(); cc && cc->write_op && cc->write_op->pending()) {
                            auto rr = sim::Rng::keyed(w.seed, "placed_dup", {(uint64_t)next.id});
                            if (rr.chance(0.5)) broker.repeat_recent_final_acks(cc->id);
                        }
                    }
                }
            };
        }
        client->async_publish(s.a, s.s1, s.s2, s.b, s.props, ops[op].slot, std::move(fn));
        ops[op].init_done_seq = w.next_seq();
        cur_init_op = -1;
        break;
    }
    case SK::PublishBurst: {
        // a = count, b = qos, c = 1: oversize payload (rejected when the broker announced a Maximum Packet Size)
        if (!client) break;
        if (!running) { w.count("skipped.not_running"); break; }
        for (int i = 0; i < s.a; ++i) {
            Step one; one.kind = SK::Publish; one.id = s.id * 100000 + i;
            int op = new_op(OpKind::publish, one);
            auto& o = ops[op];
            o.qos = s.b; o.topic = "t/" + std::to_string(one.id); o.payload = s.c ? std::string((size_t)s.d, 'x') : std::to_string(one.id) + ":";
            cur_init_op = op;
            client->async_publish(o.qos, o.topic, o.payload, false, {}, -1, cb(op));
            ops[op].init_done_seq = w.seq;
            cur_init_op = -1;
        }
        break;
    }
    case SK::Subscribe: {
        if (!client) break;
        if (!running) { w.count("skipped.not_running"); break; }   // using a client that is not running is API misuse
        int op = new_op(OpKind::subscribe, s);
        ops[op].subs = s.subs; ops[op].props = s.props;
        if (s.c) ops[op].slot = client->new_slot();
        cur_init_op = op;
        client->async_subscribe(s.subs, s.props, ops[op].slot, cb(op));
        ops[op].init_done_seq = w.next_seq();
        cur_init_op = -1;
        break;
    }
    case SK::Unsubscribe: {
        if (!client) break;
        if (!running) { w.count("skipped.not_running"); break; }   // using a client that is not running is API misuse
        int op = new_op(OpKind::unsubscribe, s);
        ops[op].topics = s.topics; ops[op].props = s.props;
        if (s.c) ops[op].slot = client->new_slot();
        cur_init_op = op;
        client->async_unsubscribe(s.topics, s.props, ops[op].slot, cb(op));
        ops[op].init_done_seq = w.next_seq();
        cur_init_op = -1;
        break;
    }
    case SK::Receive: {
        if (!client) break;
        if (!running) { w.count("skipped.not_running"); break; }   // using a client that is not running is API misuse
        for (int i = 0; i < std::max(1, s.a); ++i) {
            int op = new_op(OpKind::receive, s);
            if (s.c) ops[op].slot = client->new_slot();
            cur_init_op = op;
            client->async_receive(ops[op].slot, cb(op));
            ops[op].init_done_seq = w.next_seq();
            cur_init_op = -1;
        }
        break;
    }
    case SK::CancelOp: {
        if (!client || ops.empty()) break;
        // prefer operations that are still outstanding and have a slot
        std::vector<int> cand;
        for (auto& o : ops) if (o.slot >= 0 && o.dones.empty() && o.client_gen == client_gen) cand.push_back(o.id);
        if (cand.empty()) break;
        int op = cand[(size_t)s.a % cand.size()];
        int type = s.b == 0 ? 1 : s.b == 1 ? 2 : 4;      // terminal, partial, total
        ops[op].caller_cancelled = true; ops[op].cancel_seq = w.next_seq(); ops[op].cancel_type |= type;
        mark(MarkKind::op_cancel, op, type);
        w.count(type == 1 ? "fault.op_cancel_terminal" : type == 2 ? "fault.op_cancel_partial" : "fault.op_cancel_total");
        if (type == 1 && ops[op].kind != OpKind::receive) running = false;    // terminal cancellation cancels the whole service
        client->emit_cancel(ops[op].slot, type);
        break;
    }
    case SK::CancelClient: {
        if (!client) break;
        mark(MarkKind::cancel_client);
        w.count("fault.client_cancel");
        client->cancel();
        ++svc_gen; running = false;
        break;
    }
    case SK::Disconnect: {
        if (!client) break;
        if (!running) { w.count("skipped.not_running"); break; }   // using a client that is not running is API misuse
        int op = new_op(OpKind::disconnect, s);
        ops[op].rc = (uint8_t)s.a; ops[op].props = s.props;
        if (s.c) ops[op].slot = client->new_slot();
        mark(MarkKind::disconnect_init, op);
        w.count("fault.client_disconnect");
        cur_init_op = op;
        client->async_disconnect((uint8_t)s.a, s.props, ops[op].slot, cb(op));
        ops[op].init_done_seq = w.next_seq();
        cur_init_op = -1;
        ++svc_gen; running = false;
        break;
    }
    case SK::Destroy: {
        if (!client) break;
        mark(MarkKind::destroy);
        w.count("fault.client_destroy");
        client.reset();
        running = false;
        break;
    }
    case SK::Recreate: {
        if (client) break;
        mark(MarkKind::recreate);
        make_client();
        break;
    }
    case SK::ReAuth:
        if (client && running) { in_reauth_call = true; client->re_authenticate(); in_reauth_call = false; }
        break;
    case SK::BrokerPublish:
        broker.publish((uint8_t)s.a, s.s1, s.s2, s.props, s.b != 0);
        break;
    case SK::BrokerBurst: {
        // a = number of messages, b = max payload filler; messages differ by a counter in topic and payload
        auto r = sim::Rng::keyed(w.seed, "burst", {(uint64_t)s.id});
        for (int i = 0; i < std::max(1, s.a); ++i) {
            std::string pl = "m" + std::to_string(s.id * 1000 + i) + ":";
            size_t n = r.below((uint64_t)std::max(1, s.b));
            for (size_t k = 0; k < n; ++k) pl.push_back((char)('a' + r.below(26)));
            mq::Props pr;
            if (r.chance(0.3)) { mq::Prop u; u.id = mq::P_USER; u.s1 = "k"; u.s2 = std::to_string(i); pr.push_back(u); }
            if (r.chance(0.2)) { mq::Prop u; u.id = mq::P_CONTENT_TYPE; u.s1 = "ct"; pr.push_back(u); }
            broker.publish(0, "b/" + std::to_string(s.id * 1000 + i), pl, pr, false);
            // a PINGRESP between two messages of the burst (the client asked for none; it carries no information and must not
            // change what is recognised after it, whatever the chunking)
            if (s.c && r.chance(0.25)) if (bk::BConn* c = broker.current()) { mq::Packet g; g.type = mq::PINGRESP; broker.emit(*c, g, 0); }
        }
        break;
    }
    case SK::BrokerDisconnect:
        broker.send_disconnect((uint8_t)s.a, s.props);
        break;
    case SK::BrokerRestart:
        broker.restart(s.a != 0);
        break;
    case SK::FByteCut: case SK::FWriteErr: {
        if (healed) break;
        if (sim::Conn* c = current_conn()) apply_conn_fault(s, *c);
        else conn_faults_for_next.push_back(s);
        break;
    }
    case SK::FProto: {
        if (healed) break;
        bk::ProtoFault f;
        f.when = s.a == 0 ? bk::PfWhen::on_recv : bk::PfWhen::on_emit;
        f.ptype = (uint8_t)s.b; f.nth = s.c; f.act = (bk::PfAct)s.d; f.delay = s.t;
        f.arg = s.s1.empty() ? 0 : atoi(s.s1.c_str());
        f.hostile_kind = s.s2.empty() ? -1 : atoi(s.s2.c_str());
        f.plan_step = s.id;
        broker.arm(f);
        break;
    }
    case SK::FConnect:
        if (healed) break;
        for (int i = 0; i < std::max(1, s.b); ++i) connect_script.push_back((sim::ConnectOutcome)(s.a % 4));
        break;
    case SK::FResolve:
        if (healed) break;
        for (int i = 0; i < std::max(1, s.b); ++i) resolve_script.push_back(s.a % 3);
        break;
    case SK::FHandshake:
        if (healed) break;
        for (int i = 0; i < std::max(1, s.c); ++i) broker.hs_script.push_back({(bk::HsMode)(s.a % 7), (uint8_t)s.b});
        if (s.d > 0) auth_fail_step = (s.d - 1) % 3;      // the authenticator reports failure at its next step of this kind
        break;
    case SK::FSessionPresent:
        if (healed) break;
        for (int i = 0; i < std::max(1, s.b); ++i) broker.session_present_script.push_back(s.a);
        break;
    case SK::FStall:
        if (s.b == 1) { if (!healed) net.stall_on_next_arrival = s.t; break; }     // variant: stall right after the next bytes from the broker arrived
        w.now += s.t; w.stall_total += s.t;
        mark(MarkKind::stall, -1, s.t);
        w.count("fault.stall");
        break;
    case SK::FClockJump:
        w.wall_offset += s.t;
        mark(MarkKind::clock_jump, -1, s.t);
        w.count(s.t >= 0 ? "fault.clock_jump_forward" : "fault.clock_jump_backward");
        break;
    case SK::FPingSilent: {
        if (healed) break;
        if (bk::BConn* c = broker.current()) { c->ping_silent = s.a != 0; if (s.a) { w.count("fault.broker_silent"); net.conn(c->conn)->fault_injected = true; } }
        break;
    }
    case SK::FHostileWindow:
        if (healed) break;
        broker.hostile_window = s.a != 0;
        broker.knobs.hostile = true;
        broker.knobs.hostile_p = s.b / 1000.0;
        break;
    case SK::FShutdownDelay:
        shutdown_delays.push_back(s.t);
        break;
    case SK::FRaceTimer: {
        // place the NEXT step within +-1ns of the nearest pending client timer deadline
        auto dl = sim::TimerRegistry::pending_deadlines();
        ns_t best = sim::TIME_MAX;
        for (auto d : dl) if (d > w.now && d < best) best = d;
        if (s.b == 1) {
            // variant: the next bytes FROM THE BROKER arrive at a pending timer deadline (any of them within 30 s, seeded choice:
            // the nearest one is nearly always the 3 s sentry tick): data racing the 1.5*K read timer, the ping timer, the 5 s
            // handshake timer
            std::vector<ns_t> c2; for (auto d : dl) if (d > w.now && d - w.now <= 30 * SEC) c2.push_back(d);
            if (!c2.empty()) {
                std::sort(c2.begin(), c2.end());
                auto r = sim::Rng::keyed(w.seed, "racetimer", {(uint64_t)s.id});
                net.align_next_b2c = c2[r.below(c2.size())] + (ns_t)(s.a % 3) - 1;
            }
            break;
        }
        if (best != sim::TIME_MAX && best - w.now <= 30 * SEC && next_override) {
            *next_override = best + (ns_t)(s.a % 3) - 1;
            w.count("probe.race_timer_placed");
        }
        break;
    }
    case SK::Heal: {
        if (healed) break;
        healed = true; heal_t = w.now;
        mark(MarkKind::heal);
        heal_seq = w.seq;
        connect_script.clear(); resolve_script.clear(); conn_faults_for_next.clear(); shutdown_delays.clear();
        auth_fail_step = -1;
        broker.heal();
        net.heal();
        for (auto& c : net.conns) { for (auto& t : c->triggers) t.fired = true; for (auto& f : c->write_faults) f.fired = true; }
        break;
    }
    case SK::Wait: default: break;
    }
}

void Sim::schedule_step(size_t i, ns_t at) {
    if (i >= plan.steps.size()) { plan_done_ = true; return; }
    w.schedule(at, "plan_step", [this, i]() {
        ns_t override_at = -1;
        exec_step(plan.steps[i], &override_at);
        next_step_ = i + 1;
        if (i + 1 < plan.steps.size()) {
            ns_t at = override_at >= 0 ? override_at : w.now + plan.steps[i + 1].delay;
            schedule_step(i + 1, at);
        } else plan_done_ = true;
    }, true);
}

uint64_t Sim::abstract_state() {
    auto cap = [](size_t v, size_t m) { return (uint64_t)std::min(v, m); };
    uint64_t f[16] = {0}; int n = 0;
    f[n++] = !client ? 0 : running ? 2 : 1;
    uint64_t phase = 0, rm = 0, wr = 0, rd = 0;
    if (!net.conns.empty()) {
        auto& c = *net.conns.back();
        bk::BConn* bc = broker.bc(c.id);
        if (c.client_closed || c.st == sim::Conn::failed || c.st == sim::Conn::closed) phase = resolver.pending > 0 ? 6 : 5;
        else if (c.st == sim::Conn::connecting) phase = 1;
        else if (c.dead || c.fin_arrived || c.broker_closed || c.blackhole) phase = 4;
        else if (bc && bc->phase == bk::BConn::established) phase = 3;
        else phase = 2;
        if (bc && bc->caps.recv_max && phase == 3) rm = bc->inflight.size() >= *bc->caps.recv_max ? 2 : 1;
        wr = c.write_op ? (c.write_blocked ? 2 : 1) : 0;
        rd = c.read_op ? 1 : 0;
    } else if (resolver.pending > 0) phase = 6;
    f[n++] = phase; f[n++] = rm; f[n++] = wr; f[n++] = rd;
    size_t q0 = 0, q1 = 0, q2 = 0, su = 0, rc = 0, di = 0, cancelled = 0;
    for (auto& o : ops) {
        if (!o.dones.empty()) continue;
        if (o.caller_cancelled) ++cancelled;
        switch (o.kind) {
        case OpKind::publish: (o.qos == 0 ? q0 : o.qos == 1 ? q1 : q2)++; break;
        case OpKind::subscribe: case OpKind::unsubscribe: ++su; break;
        case OpKind::receive: ++rc; break;
        case OpKind::disconnect: ++di; break;
        default: break;
        }
    }
    f[n++] = cap(q0, 1); f[n++] = cap(q1, 3); f[n++] = cap(q2, 3); f[n++] = cap(su, 2); f[n++] = cap(rc, 2); f[n++] = cap(di, 1); f[n++] = cap(cancelled, 1);
    f[n++] = cap(broker.session.outq.size(), 2);
    f[n++] = cap(sim::TimerRegistry::pending_deadlines().size(), 5);
    f[n++] = healed ? 1 : 0;
    f[n++] = cap((size_t)svc_gen, 2);
    uint64_t h = 0;
    for (int i = 0; i < n; ++i) h = h * 7 + f[i];       // every field is below 7: an exact mixed-radix code
    return h;
}

void Sim::execute() {
    uint64_t budget = (uint64_t)plan.knobs.max_steps;
    uint64_t used = 0;
    auto step_world = [&](ns_t horizon) -> bool {
        // returns false when idle up to horizon
        auto r = w.step(horizon);
        ++used;
        if (r == sim::World::StepResult::advanced && ops.size() < 2000) abstract_states.insert(abstract_state());
        // arm pending connection faults on a freshly established connection
        if (!conn_faults_for_next.empty() && !healed) {
            if (sim::Conn* c = current_conn()) {
                auto fs = std::move(conn_faults_for_next); conn_faults_for_next.clear();
                for (auto& f : fs) apply_conn_fault(f, *c);
            }
        }
        if (w.steps_at_instant > 200000) { livelock = true; return false; }
        return r != sim::World::StepResult::idle;
    };

    if (plan.steps.empty()) plan_done_ = true;
    else schedule_step(0, plan.steps[0].delay);

    // phase 1: the plan
    while (!plan_done_ && used < budget && !livelock) {
        if (!step_world(sim::TIME_MAX)) { if (!plan_done_ && !w.has_events()) break; }
    }
    // let the last step's consequences at the same instant settle
    while (used < budget && !livelock && step_world(w.now)) {}

    // phase 2: healed suffix (bounded liveness)
    if (plan.knobs.final_heal && !livelock) {
        if (!healed) { Step h; h.kind = SK::Heal; h.id = -1; exec_step(h, nullptr); }
        // the reply-age check uses the wall clock: a backward clock jump postpones it by the size of the jump
        ns_t back = 0; for (auto& m : marks) if (m.kind == MarkKind::clock_jump && m.arg < 0) back += -m.arg;
        ns_t horizon = heal_t + plan.knobs.healed_suffix + w.stall_total + back;
        while (used < budget && !livelock) {
            if (!step_world(horizon)) break;
        }
        if (w.now < horizon) w.now = horizon;
    }
    suffix_end_t = w.now;
    mark(MarkKind::suffix_end);
    suffix_end_seq = w.seq;
    if (used >= budget) budget_exhausted = true;

    // phase 3: drain the receive channel (count what reached the application)
    if (client && running && !livelock && !budget_exhausted && plan.knobs.focus != "C11x") {
        running_at_drain = true;
        for (int i = 0; i < 100000; ++i) {
            Step s; s.kind = SK::Receive; s.id = -2; s.a = 1;
            size_t before = ops.size();
            exec_step(s, nullptr);
            ops[before].is_final_drain = true;
            uint64_t guard = 0;
            while (guard++ < 100000 && step_world(w.now)) {}
            if (ops[before].dones.empty()) break;
            if (ops[before].dones[0].c.ec == boost::asio::error::operation_aborted) break;   // channel closed
        }
    }

    // phase 4: teardown: cancel(), drain without advancing time, destroy
    mark(MarkKind::teardown_begin);
    ns_t t0 = w.now;
    if (client && !livelock && !budget_exhausted) {
        client->cancel();
        mark(MarkKind::cancel_client, -1, 1);
        ++svc_gen; running = false;
        uint64_t guard = 0;
        while (guard++ < 1000000 && step_world(w.now)) {}
        resolver_pending_at_teardown = resolver.pending;
        if (resolver.pending > 0) {
            // like the real resolver, a running resolve cannot be cancelled: await it
            ns_t lim = w.now + 10 * SEC;
            while (resolver.pending > 0 && guard++ < 1000000 && step_world(lim)) {}
            while (guard++ < 1000000 && step_world(w.now)) {}
        }
        w.step(w.now);
        out_of_work_after_cancel = w.out_of_work;
        client.reset();
        mark(MarkKind::destroy, -1, 1);
        guard = 0;
        while (guard++ < 1000000 && step_world(w.now)) {}
        w.step(w.now);
        out_of_work_after_destroy = w.out_of_work;
        teardown_done = true;
    } else if (!client && !livelock && !budget_exhausted) {
        uint64_t guard = 0;
        while (guard++ < 1000000 && step_world(w.now)) {}
        resolver_pending_at_teardown = resolver.pending;
        if (resolver.pending > 0) {
            ns_t lim = w.now + 10 * SEC;
            while (resolver.pending > 0 && guard++ < 1000000 && step_world(lim)) {}
            while (guard++ < 1000000 && step_world(w.now)) {}
        }
        w.step(w.now);
        out_of_work_after_cancel = out_of_work_after_destroy = w.out_of_work;
        teardown_done = true;
    }
    teardown_time_advance = w.now - t0;
    mark(MarkKind::teardown_end);
}

} // namespace app
