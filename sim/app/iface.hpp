// Facade between the simulator (no /repo includes) and the client TUs (the only
// files that include <boost/mqtt5/...>). Everything crosses as generic MQTT data.
#pragma once
#include <boost/asio/cancellation_signal.hpp>
#include <boost/asio/io_context.hpp>
#include <boost/system/error_code.hpp>

#include <functional>
#include <memory>
#include <optional>
#include <string>
#include <vector>

#include "../broker/mqtt_types.hpp"

namespace app {

using error_code = boost::system::error_code;

struct ClientConfig {
    std::string brokers = "h0";
    uint16_t default_port = 1883;
    std::string client_id = "cid";
    std::string username, password;
    std::optional<mq::Will> will;
    std::optional<uint16_t> keep_alive;
    mq::Props connect_props;
    bool use_authenticator = false;
    std::string auth_method = "m1";
    bool auth_posted = false;       // the authenticator completes asynchronously (posted), not from inside async_auth
};

struct Completion {
    error_code ec;
    uint8_t rc = 0;                 // publish QoS1/2
    mq::Props props;                // puback/pubcomp/suback/unsuback/publish(receive)
    std::vector<uint8_t> rcs;       // subscribe / unsubscribe
    std::string topic, payload;     // receive
};
using CompletionFn = std::function<void(Completion)>;

// what the client reports through its logger / authenticator
struct ClientObserver {
    virtual ~ClientObserver() = default;
    virtual void log_resolve(error_code ec, const std::string& host, const std::string& port, size_t n_eps) = 0;
    virtual void log_tcp_connect(error_code ec, const std::string& ip, uint16_t port) = 0;
    virtual void log_connack(uint8_t rc, bool session_present, const mq::Props& props) = 0;
    virtual void log_disconnect(uint8_t rc, const mq::Props& props) = 0;
    // authenticator: returns (ec != 0 => fail, data); *posted = complete through post() instead of inside async_auth
    virtual std::pair<bool, std::string> auth_step(int step, const std::string& data, bool* posted) = 0;
};

struct IClient {
    virtual ~IClient() = default;
    virtual void configure(const ClientConfig&) = 0;
    // slot < 0: no cancellation slot bound; otherwise a per-operation signal `slot`
    virtual void async_run(int slot, CompletionFn) = 0;
    virtual void async_publish(int qos, std::string topic, std::string payload, bool retain,
                               const mq::Props& props, int slot, CompletionFn) = 0;
    virtual void async_subscribe(const std::vector<mq::SubTopic>& topics, const mq::Props& props,
                                 int slot, CompletionFn) = 0;
    virtual void async_unsubscribe(const std::vector<std::string>& topics, const mq::Props& props,
                                   int slot, CompletionFn) = 0;
    virtual void async_receive(int slot, CompletionFn) = 0;
    virtual void async_disconnect(uint8_t rc, const mq::Props& props, int slot, CompletionFn) = 0;
    virtual void cancel() = 0;
    virtual void re_authenticate() = 0;
    virtual mq::Props connack_properties() = 0;
    // type: 1 terminal, 2 partial, 4 total (asio::cancellation_type values)
    virtual void emit_cancel(int slot, int type) = 0;
    virtual int new_slot() = 0;
};

// cancellation signals must outlive the operations bound to their slots: they are owned by the run, not the client
using SignalPool = std::vector<std::unique_ptr<boost::asio::cancellation_signal>>;

// variant 0 = A (sim::stream), 1 = B (basic_stream_socket specialisation)
std::unique_ptr<IClient> make_client_A(boost::asio::io_context& ioc, ClientObserver* obs, SignalPool* pool);
std::unique_ptr<IClient> make_client_B(boost::asio::io_context& ioc, ClientObserver* obs, SignalPool* pool);
// the reconnect machinery on its own (detail::autoconnect_stream under a minimal reader/writer), same two stream types
std::unique_ptr<IClient> make_mini_A(boost::asio::io_context& ioc, ClientObserver* obs, SignalPool* pool);
std::unique_ptr<IClient> make_mini_B(boost::asio::io_context& ioc, ClientObserver* obs, SignalPool* pool);

} // namespace app
