// Oracles part 3: C09, C15, C18, C19
#include "oracle_ctx.hpp"
namespace app {
void Ctx::c09() {}
void Ctx::c15() {}
void Ctx::c18() {}
void Ctx::c19() {}
}
