// Oracles part 3: C09 (async_disconnect), C15 (capabilities), C18 (decoding of well-formed
// broker packets as surfaced by the API), C19 (hostile bytes: witness for every success).
#include "oracle_ctx.hpp"

namespace app {

namespace {
uint32_t prop_num(const Props& p, uint8_t id, uint32_t dflt) { auto* x = find_prop(p, id); return x ? x->num : dflt; }
bool has_prop(const Props& p, uint8_t id) { return find_prop(p, id) != nullptr; }

bool is_client_ec(const error_code& ec, int v) { return ec.value() == v && std::string(ec.category().name()) == "mqtt_client_error"; }
}

// ------------------------------------------------------------------ C09
void Ctx::c09() {
    auto& B = s.broker;
    for (auto& D : s.ops) {
        if (D.kind != OpKind::disconnect || D.dones.empty()) continue;
        const Done& dd = D.dones[0];
        if (is_client_ec(dd.c.ec, 100)) continue;      // rejected by validation: nothing happens
        // (1) completes within 5 s of initiation, reachable broker or not
        ns_t dur = dd.t - D.init_t;
        ns_t slack = stall_between(D.init_seq, dd.seq);
        bool resolve_pending = false;
        for (auto& r : s.resolver.log) if (r.seq < dd.seq && (r.seq_done == 0 || r.seq_done > D.init_seq)) resolve_pending = true;
        // a resolve that cannot be cancelled (like the real resolver) and was still running at the 5 s limit
        bool resolve_at_limit = false;
        for (auto& r : s.resolver.log) if (r.t <= D.init_t + 5 * SEC + slack && (r.seq_done == 0 || r.t_done > D.init_t + 5 * SEC)) resolve_at_limit = true;
        if (dur > 5 * SEC + slack && !D.caller_cancelled)
            fail("C09", resolve_at_limit ? "disconnect_slower_than_5s_behind_resolve" : "disconnect_slower_than_5s",
                 opstr(D) + " completed " + std::to_string(dur / 1000000) + " ms after initiation" + (resolve_at_limit ? " (an uncancellable name resolution was still running at the 5 s limit)" : ""));
        (void)resolve_pending;
        // window in which only this (old) service can be active: until completion or until the application runs the client again
        uint64_t win_end = dd.seq;
        uint64_t next_run = UINT64_MAX;
        for (auto& m : s.marks) if (m.kind == MarkKind::run && m.seq > D.init_seq) { next_run = m.seq; break; }
        win_end = std::min(win_end, next_run);
        // DISCONNECT expected on the wire: reason code and properties as given; properties dropped iff the packet would be too large
        Packet expect; expect.type = DISCONNECT; expect.rc = D.rc; expect.props = D.props;
        uint32_t maxp = prop_num(D.connack_snapshot, P_MAX_PACKET, 268435460u);
        bool too_large = encode(expect).size() > maxp;
        // (3) every post-handshake write begun after initiation carries exactly the DISCONNECT, and nothing follows it on that connection
        for (auto& g : s.net.groups) {
            if (g.seq_start <= D.init_seq || g.seq_start > win_end) continue;
            std::vector<const bk::RecvPkt*> pk;
            bool handshake = false;
            for (auto& r : B.recv) if (r.conn == g.conn && r.first_group == g.id) { pk.push_back(&r); if (r.during_handshake) handshake = true; }
            if (pk.empty() || handshake) continue;       // content unknown (never arrived) or CONNECT/AUTH of a reconnect
            if (conn_hostile(g.conn)) continue;
            if (other_gen_active(D.svc_gen, g.seq_start)) continue;      // may be another service object's traffic
            bool ok = pk.size() == 1 && pk[0]->decode_err.empty() && pk[0]->pkt.type == DISCONNECT;
            if (!ok) {
                std::string what; for (auto* r : pk) what += std::string(r->decode_err.empty() ? ptype_name(r->pkt.type) : "undecodable") + " ";
                fail("C09", "other_packet_after_disconnect_initiated", opstr(D) + ": a write begun at seq " + std::to_string(g.seq_start) + " on connection " + std::to_string(g.conn) +
                     " after async_disconnect was initiated carries: " + what);
                continue;
            }
            const Packet& p = pk[0]->pkt;
            // internally generated DISCONNECTs (malformed packet, sentry) may already be queued: only the reason code given by the caller is judged
            if (p.rc != D.rc && (p.rc == 0x81 || p.rc == 0x80 || p.rc == 0x82)) continue;
            if (p.rc != D.rc)
                fail("C09", "disconnect_reason_code", opstr(D) + ": DISCONNECT on the wire has reason code " + std::to_string(p.rc) + ", given " + std::to_string(D.rc));
            else if (too_large ? !p.props.empty() : !props_equal(p.props, D.props))
                fail("C09", "disconnect_properties", opstr(D) + ": DISCONNECT on the wire has properties " + props_str(p.props) + ", given " + props_str(D.props) +
                     (too_large ? " (must be dropped: larger than Maximum Packet Size " + std::to_string(maxp) + ")" : ""));
            for (auto& g2 : s.net.groups)
                if (g2.conn == g.conn && g2.seq_start > g.seq_start && g2.seq_start <= win_end)
                    fail("C09", "write_after_disconnect", opstr(D) + ": connection " + std::to_string(g.conn) + " saw another write (seq " + std::to_string(g2.seq_start) +
                         ") after the DISCONNECT packet (seq " + std::to_string(g.seq_start) + ")");
        }
        // (4) silence after completion until async_run is called again
        uint64_t quiet_end = next_run;
        for (auto& m : s.marks) if ((m.kind == MarkKind::recreate || m.kind == MarkKind::teardown_begin) && m.seq > dd.seq && m.seq < quiet_end) quiet_end = m.seq;
        // an uncancellable resolve that was running when the disconnect finished may still complete; nothing may follow it
        for (auto& g : s.net.groups)
            if (g.seq_start > dd.seq && g.seq_start < quiet_end && !other_gen_active(D.svc_gen, g.seq_start))
                fail("C09", "write_after_completion", opstr(D) + " completed at seq " + std::to_string(dd.seq) + " but the client wrote again at seq " + std::to_string(g.seq_start));
        for (auto& c : s.net.conns)
            if (c->seq_begin > dd.seq && c->seq_begin < quiet_end && !other_gen_active(D.svc_gen, c->seq_begin))
                fail("C09", "connect_after_completion", opstr(D) + " completed at seq " + std::to_string(dd.seq) + " but connection attempt " + std::to_string(c->id) + " started at seq " + std::to_string(c->seq_begin));
        // (a name resolution that starts after completion is not judged: the statement speaks of writes and connections)
    }
}

// ------------------------------------------------------------------ C15
void Ctx::c15() {
    auto& B = s.broker;
    // The CONNACK the client holds at the initiation of a request: the properties of the last CONNACK it logged
    // (tied to what the broker encoded by C18), not what connack_properties() returns - a client that forgets the
    // announced limits must not blind this oracle. Where the log cannot be attributed (two service generations,
    // cancel/disconnect/re-run in between) the client's own snapshot is used.
    auto held = [&](const OpRec& o) -> const Props& {
        const LogRec* last = nullptr;
        for (auto& l : s.logs) if (l.k == LogRec::connack && l.seq < o.init_seq) last = &l;
        if (!last || multi_gen_active(last->seq, o.init_seq) || boundary_between(last->seq, o.init_seq)) return o.connack_snapshot;
        return last->props;
    };
    for (auto& o : s.ops) {
        if (o.kind != OpKind::publish && o.kind != OpKind::subscribe && o.kind != OpKind::unsubscribe) continue;
        if (!o.has_connack) continue;        // the statement covers requests initiated while the client holds a CONNACK
        const Props& cp = held(o);
        std::set<int> F;                     // applicable documented errors
        uint32_t maxp = prop_num(cp, P_MAX_PACKET, 268435460u);
        Packet pk;
        if (o.kind == OpKind::publish) {
            pk.type = PUBLISH; pk.qos = o.qos; pk.retain = o.retain; pk.topic = o.topic; pk.payload = o.payload; pk.props = o.props; pk.pid = 1;
            if ((uint32_t)o.qos > prop_num(cp, P_MAX_QOS, 2)) F.insert(105);
            if (o.retain && prop_num(cp, P_RETAIN_AVAIL, 1) == 0) F.insert(106);
            if (auto* a = find_prop(o.props, P_TOPIC_ALIAS)) {
                uint32_t am = prop_num(cp, P_TOPIC_ALIAS_MAX, 0);
                if (am == 0 || a->num > am) F.insert(107);
            }
        } else if (o.kind == OpKind::subscribe) {
            pk.type = SUBSCRIBE; pk.subs = o.subs; pk.props = o.props; pk.pid = 1;
            bool wild_ok = prop_num(cp, P_WILDCARD_AVAIL, 1) != 0, shared_ok = prop_num(cp, P_SHARED_AVAIL, 1) != 0, subid_ok = prop_num(cp, P_SUBID_AVAIL, 1) != 0;
            for (auto& t : o.subs) {
                bool shared = t.filter.rfind("$share/", 0) == 0;
                bool wild = t.filter.find_first_of("#+") != std::string::npos;
                if (shared && !shared_ok) F.insert(110);
                if (wild && !wild_ok) F.insert(108);
            }
            if (has_prop(o.props, P_SUB_ID) && !subid_ok) F.insert(109);
        } else {
            pk.type = UNSUBSCRIBE; pk.unsubs = o.topics; pk.props = o.props; pk.pid = 1;
        }
        if (encode(pk).size() > maxp) F.insert(101);
        const Done* d = done(o);
        auto& receipts = o.kind == OpKind::publish ? pub_receipts : o.kind == OpKind::subscribe ? sub_receipts : unsub_receipts;
        bool on_wire = receipts.count(o.id) && !receipts[o.id].empty();
        if (!F.empty()) {
            std::string fs; for (int f : F) fs += std::to_string(f) + " ";
            if (on_wire)
                fail("C15", "forbidden_request_on_wire", opstr(o) + " is forbidden by the CONNACK held at initiation (applicable errors " + fs + ") but was transmitted: " +
                     packet_str(B.recv[receipts[o.id].front()].pkt));
            if (d) {
                bool cap_err = false; for (int f : F) if (is_client_ec(d->c.ec, f)) cap_err = true;
                // other validation errors (invalid topic, malformed properties) may legitimately win
                bool other_validation = is_client_ec(d->c.ec, 100) || is_client_ec(d->c.ec, 104) || is_client_ec(d->c.ec, 103);
                if (!cap_err && !other_validation)
                    fail("C15", "forbidden_request_not_rejected", opstr(o) + " is forbidden by the CONNACK held at initiation (applicable errors " + fs + ") but completed with " +
                         d->c.ec.category().name() + ":" + std::to_string(d->c.ec.value()));
                if ((cap_err || other_validation) && d->t - o.init_t > stall_between(o.init_seq, d->seq))
                    fail("C15", "rejection_not_immediate", opstr(o) + " was rejected " + std::to_string((d->t - o.init_t) / 1000) + " us after initiation, not immediately");
            }
        } else if (d) {
            for (int f : {101, 105, 106, 107, 108, 109, 110})
                if (is_client_ec(d->c.ec, f))
                    fail("C15", "allowed_request_rejected", opstr(o) + " respects every capability of the CONNACK held at initiation (" + props_str(cp) + ") but was rejected with mqtt_client_error:" +
                         std::to_string(f) + " (encoded size " + std::to_string(encode(pk).size()) + ")");
        }
    }
    // wire side: every packet respects the capabilities of the connection it travels on, when the request was
    // initiated under an identical capability set
    auto caps_of = [](const Props& p) {
        Props r; for (auto& x : p) if (x.id == P_MAX_PACKET || x.id == P_MAX_QOS || x.id == P_RETAIN_AVAIL || x.id == P_TOPIC_ALIAS_MAX || x.id == P_WILDCARD_AVAIL || x.id == P_SUBID_AVAIL || x.id == P_SHARED_AVAIL) r.push_back(x);
        std::sort(r.begin(), r.end()); return r;
    };
    for (auto& r : B.recv) {
        if (!r.decode_err.empty() || r.during_handshake) continue;
        auto* bc = B.bc(r.conn);
        if (!bc || bc->connack_sent_idx < 0) continue;
        Props cc = caps_of(bc->caps.to_props());
        int op = -1;
        if (r.pkt.type == PUBLISH) op = op_of_topic(r.pkt.topic);
        else if (r.pkt.type == SUBSCRIBE && !r.pkt.subs.empty()) op = op_of_filter(r.pkt.subs[0].filter, sub_op_by_step);
        else if (r.pkt.type == UNSUBSCRIBE && !r.pkt.unsubs.empty()) op = op_of_unsub(r.pkt.unsubs[0]);
        else if (r.pkt.type == DISCONNECT && r.pkt.rc != 0x81 && r.pkt.rc != 0x82 && r.pkt.rc != 0x80) {
            // the DISCONNECT of the latest async_disconnect initiated before it (internally generated ones carry 0x80/0x81/0x82 and a short reason string)
            for (auto& o : s.ops) if (o.kind == OpKind::disconnect && o.init_seq < r.seq && o.rc == r.pkt.rc) op = o.id;
        }
        else continue;
        if (op < 0 || !s.ops[op].has_connack || !(caps_of(held(s.ops[op])) == cc)) continue;
        uint32_t maxp = prop_num(cc, P_MAX_PACKET, 268435460u);
        if (r.pkt.raw.size() > maxp)
            fail("C15", "packet_exceeds_maximum_packet_size", "conn " + std::to_string(r.conn) + ": " + ptype_name(r.pkt.type) + " of " + std::to_string(r.pkt.raw.size()) + " bytes exceeds the announced Maximum Packet Size " + std::to_string(maxp));
        if (r.pkt.type == PUBLISH) {
            if (r.pkt.qos > prop_num(cc, P_MAX_QOS, 2)) fail("C15", "qos_exceeds_maximum", "conn " + std::to_string(r.conn) + ": PUBLISH QoS " + std::to_string(r.pkt.qos) + " above announced Maximum QoS");
            if (r.pkt.retain && prop_num(cc, P_RETAIN_AVAIL, 1) == 0) fail("C15", "retain_not_available", "conn " + std::to_string(r.conn) + ": retained PUBLISH although Retain Available = 0");
            if (auto* a = find_prop(r.pkt.props, P_TOPIC_ALIAS)) if (a->num > prop_num(cc, P_TOPIC_ALIAS_MAX, 0)) fail("C15", "topic_alias_exceeds_maximum", "conn " + std::to_string(r.conn) + ": Topic Alias " + std::to_string(a->num) + " above announced maximum");
        }
    }
}

// ------------------------------------------------------------------ C18
void Ctx::c18() {
    if (hostile_run) return;
    auto& B = s.broker;
    // CONNACK as logged by the client == CONNACK the broker encoded
    std::vector<const bk::SentPkt*> connacks;
    for (auto& sp : B.sent) if (sp.pkt.type == CONNACK && !sp.hostile && sp.delivered_seq) connacks.push_back(&sp);
    std::sort(connacks.begin(), connacks.end(), [](auto* a, auto* b) { return a->delivered_seq < b->delivered_seq; });
    size_t ci = 0;
    for (auto& l : s.logs) {
        if (l.k != LogRec::connack) continue;
        bool matched = false;
        for (size_t k = ci; k < connacks.size(); ++k) {
            auto* sp = connacks[k];
            if (sp->delivered_seq > l.seq) break;
            if (sp->pkt.rc == l.rc && sp->pkt.session_present == l.session_present && props_equal(sp->pkt.props, l.props)) { matched = true; ci = k + 1; break; }
        }
        if (!matched) {
            // the most recent delivered CONNACK, for the message
            const bk::SentPkt* last = nullptr;
            for (auto* sp : connacks) if (sp->delivered_seq <= l.seq) last = sp;
            fail("C18", "connack_decoded_differently", "client reported CONNACK rc=" + std::to_string(l.rc) + " sp=" + std::to_string(l.session_present) + " " + props_str(l.props) +
                 " at seq " + std::to_string(l.seq) + "; broker encoded " + (last ? packet_str(last->pkt) : std::string("none")));
        }
    }
    // connack_properties() as seen by the application == the properties of the last successful CONNACK logged
    for (auto& o : s.ops) {
        const LogRec* last = nullptr;
        for (auto& l : s.logs) if (l.k == LogRec::connack && l.seq < o.init_seq) last = &l;
        if (!last || multi_gen_active(last->seq, o.init_seq) || boundary_between(last->seq, o.init_seq)) continue;
        if (!props_equal(o.connack_snapshot, last->props))
            fail("C18", "connack_properties_differ", opstr(o) + ": connack_properties() returned " + props_str(o.connack_snapshot) + " but the last CONNACK carried " + props_str(last->props));
    }
    // server DISCONNECT as logged
    {
        std::vector<const bk::SentPkt*> ds;
        for (auto& sp : B.sent) if (sp.pkt.type == DISCONNECT && !sp.hostile && sp.delivered_seq) ds.push_back(&sp);
        for (auto& l : s.logs) {
            if (l.k != LogRec::disconnect) continue;
            bool ok = false;
            for (auto* sp : ds) if (sp->delivered_seq <= l.seq && sp->pkt.rc == l.rc && props_equal(sp->pkt.props, l.props)) ok = true;
            if (!ok) fail("C18", "disconnect_decoded_differently", "client reported server DISCONNECT rc=" + std::to_string(l.rc) + " " + props_str(l.props) + " which the broker never sent like that");
        }
        // and every delivered server DISCONNECT whose connection the client was still reading is reported
    }
    // authenticator inputs == Authentication Data of the broker's AUTH / CONNACK
    for (auto& l : s.logs) {
        if (l.k != LogRec::auth_step || l.step == 0) continue;
        bool ok = false;
        for (auto& sp : B.sent) {
            if (sp.hostile || !sp.delivered_seq || sp.delivered_seq > l.seq) continue;
            if (sp.pkt.type != AUTH && sp.pkt.type != CONNACK) continue;
            auto* d = find_prop(sp.pkt.props, P_AUTH_DATA);
            if ((d ? d->s1 : std::string()) == l.s1) ok = true;
        }
        if (!ok) fail("C18", "auth_data_differs", "authenticator step " + std::to_string(l.step) + " received data '" + l.s1 + "' that no AUTH/CONNACK of the broker carried");
    }
    // a well-formed packet is never treated as malformed (not judged when the broker repeats acknowledgements: a repeated
    // SUBACK/UNSUBACK can meet a new request with the same identifier and another topic count)
    if (!relaxed_witness()) for (auto& r : B.recv) {
        if (!r.decode_err.empty() || r.pkt.type != DISCONNECT) continue;
        if (r.pkt.rc != 0x81 && r.pkt.rc != 0x82) continue;
        if (conn_hostile(r.conn)) continue;
        auto* rs = find_prop(r.pkt.props, P_REASON_STRING);
        // what did the broker send last on this connection?
        std::string lastp;
        if (auto* bc = B.bc(r.conn)) for (int si : bc->sent) if (B.sent[si].delivered_seq && B.sent[si].delivered_seq < r.seq) lastp = packet_str(B.sent[si].pkt);
        fail("C18", "wellformed_treated_as_malformed", "conn " + std::to_string(r.conn) + ": client sent DISCONNECT rc=" + std::to_string(r.pkt.rc) + " (" + (rs ? rs->s1 : std::string()) +
             ") although every packet of the broker was well-formed; last delivered: " + lastp);
    }
}

// ------------------------------------------------------------------ C19
void Ctx::c19() {
    if (!hostile_run) return;
    auto& B = s.broker;
    // What a correct client can recognise on each connection: frame the emitted byte stream with the reference framer
    // and decode each frame strictly. Only those packets can be witnesses of a successful completion.
    struct WF { int conn; Packet p; size_t off_end; uint64_t delivered_seq; bool lenient = false; };
    std::vector<WF> wf, trailing, badutf8, noprops;
    for (auto& bcp : B.conns) {
        if (!bcp) continue;
        Framer fr; size_t pos = 0;
        std::vector<std::pair<size_t, uint64_t>> delivered;     // (off_end, delivered_seq) of sent packets, to date frames
        std::vector<int> order;
        for (int si : bcp->sent) if (B.sent[si].seq) order.push_back(si);        // seq == 0: never left the broker
        std::sort(order.begin(), order.end(), [&](int a, int b) { return B.sent[a].seq < B.sent[b].seq; });   // actual emission order
        for (int si : order) {
            auto& sp = B.sent[si];
            std::string bytes = sp.raw.substr(0, sp.emitted_len);
            auto frames = fr.feed(bytes.data(), bytes.size());
            pos += bytes.size();
            for (auto& f : frames) {
                Packet p;
                std::string e = decode_strict(f, p, true);
                if (e.empty()) wf.push_back({bcp->conn, p, pos, sp.delivered_seq});
                else if (Packet q; decode_lenient(f, q, true).empty()) wf.push_back({bcp->conn, q, pos, sp.delivered_seq, true});   // Protocol Error, not a Malformed Packet: accepting it is outside the statement
                else if (Packet q2; decode_lenient(f, q2, true, true).empty()) badutf8.push_back({bcp->conn, q2, pos, sp.delivered_seq, true});   // parses apart from ill-formed UTF-8
                else if (f.size() >= 4 && ((uint8_t)f[0] >> 4) == PUBLISH && !((uint8_t)f[1] & 0x80)) {
                    // a PUBLISH whose body ends right after the topic name (and packet identifier): no Property Length at all
                    size_t tl = ((uint8_t)f[2] << 8) | (uint8_t)f[3];
                    int q = ((uint8_t)f[0] >> 1) & 3;
                    if (q != 3 && f.size() == 2 + 2 + tl + (q ? 2 : 0)) { Packet q3; q3.type = PUBLISH; q3.topic = f.substr(4, tl); noprops.push_back({bcp->conn, q3, pos, sp.delivered_seq, true}); }
                }
                else if (e.find("trailing bytes") != std::string::npos) trailing.push_back({bcp->conn, p, pos, sp.delivered_seq});   // fields parsed, garbage after them
            }
            if (!fr.error.empty()) break;
        }
    }
    for (auto& o : s.ops) {
        const Done* d = done(o);
        if (!d || d->c.ec) continue;
        uint8_t want = 0; const std::vector<int>* rs = nullptr;
        if (o.kind == OpKind::publish && o.qos == 1) { want = PUBACK; rs = pub_receipts.count(o.id) ? &pub_receipts[o.id] : nullptr; }
        else if (o.kind == OpKind::publish && o.qos == 2) { want = PUBCOMP; rs = pub_receipts.count(o.id) ? &pub_receipts[o.id] : nullptr; }
        else if (o.kind == OpKind::subscribe) { want = SUBACK; rs = sub_receipts.count(o.id) ? &sub_receipts[o.id] : nullptr; }
        else if (o.kind == OpKind::unsubscribe) { want = UNSUBACK; rs = unsub_receipts.count(o.id) ? &unsub_receipts[o.id] : nullptr; }
        else continue;
        if (!any_hostile_between(o.init_seq, d->seq)) continue;      // judged by C01/C14
        std::set<uint16_t> pids;
        if (rs) for (int ri : *rs) pids.insert(B.recv[ri].pkt.pid);
        bool ok = false;
        for (auto& w : wf) {
            if (!pids.count(w.p.pid)) continue;
            if (w.p.type == want || (want == PUBCOMP && w.p.type == PUBREC && w.p.rc >= 0x80)) {
                if ((want == SUBACK || want == UNSUBACK) && w.p.rcs.size() != d->c.rcs.size()) continue;
                ok = true;
            }
        }
        bool only_trailing = false;
        if (!ok) for (auto& w : trailing) if (pids.count(w.p.pid) && (w.p.type == want || (want == PUBCOMP && w.p.type == PUBREC))) only_trailing = true;
        if (!ok)
            fail("C19", only_trailing ? "ack_with_trailing_bytes_accepted" : "success_without_wellformed_ack", opstr(o) + " completed successfully during a hostile window, but no well-formed " + ptype_name(want) +
                 " for its packet identifier is contained in what the broker sent");
    }
    // a message handed to the application is one of the well-formed PUBLISH packets in the broker's byte stream
    for (auto& o : s.ops) {
        if (o.kind != OpKind::receive) continue;
        const Done* d = done(o);
        if (!d || d->c.ec) continue;
        bool ok = false;
        for (auto& w : wf) if (w.p.type == PUBLISH && w.p.topic == d->c.topic && w.p.payload == d->c.payload && (w.lenient || props_equal(w.p.props, d->c.props))) { ok = true; break; }
        bool utf8 = false;
        if (!ok) for (auto& w : badutf8) if (w.p.type == PUBLISH && w.p.topic == d->c.topic && w.p.payload == d->c.payload) utf8 = true;
        bool nop = false;
        if (!ok && !utf8 && d->c.payload.empty() && d->c.props.empty()) for (auto& w : noprops) if (w.p.topic == d->c.topic) nop = true;
        if (!ok)
            fail("C19", utf8 ? "publish_with_illformed_utf8_delivered" : nop ? "publish_without_property_length_delivered" : "received_message_not_in_wellformed_stream", opstr(o) + " delivered topic '" + d->c.topic + "' payload " + hex(d->c.payload, 24) + " " + props_str(d->c.props) +
                 " which is not a well-formed PUBLISH of the broker's byte stream");
    }
}

// ------------------------------------------------------------------ C20 (simulated exchange per category x byte)
void Ctx::c20x() {
    int cat = -1, byte = -1;
    if (sscanf(s.plan.knobs.focus.c_str(), "C20x:%d:%d", &cat, &byte) != 2) return;
    auto& B = s.broker;
    static const std::set<int> connack{0x00,0x80,0x81,0x82,0x83,0x84,0x85,0x86,0x87,0x88,0x89,0x8a,0x8c,0x90,0x95,0x97,0x99,0x9a,0x9b,0x9c,0x9d,0x9f};
    static const std::set<int> puback{0x00,0x10,0x80,0x83,0x87,0x90,0x91,0x97,0x99};
    static const std::set<int> pubrel{0x00,0x92};
    static const std::set<int> suback{0x00,0x01,0x02,0x80,0x83,0x87,0x8f,0x91,0x97,0x9e,0xa1,0xa2};
    static const std::set<int> unsuback{0x00,0x11,0x80,0x83,0x87,0x8f,0x91};
    static const std::set<int> auth{0x00,0x18,0x19}, auth_srv{0x00,0x18};
    static const std::set<int> disc{0x00,0x04,0x80,0x81,0x82,0x83,0x87,0x89,0x8b,0x8d,0x8e,0x8f,0x90,0x93,0x94,0x95,0x96,0x97,0x98,0x99,0x9a,0x9b,0x9c,0x9d,0x9e,0x9f,0xa0,0xa1,0xa2};
    const std::set<int>* listed_tab[9] = {&connack, &puback, &puback, &pubrel, &pubrel, &suback, &unsuback, &auth, &disc};
    static const char* names[9] = {"connack", "puback", "pubrec", "pubrel", "pubcomp", "suback", "unsuback", "auth", "disconnect"};
    bool listed = listed_tab[cat]->count(byte);
    bool server_may = listed && !(cat == 7 && byte == 0x19) && !(cat == 8 && byte == 0x04);
    // was the mutated packet sent and delivered at all?
    uint8_t ptype = cat == 0 ? CONNACK : cat == 1 ? PUBACK : cat == 2 ? PUBREC : cat == 3 ? PUBREL : cat == 4 ? PUBCOMP : cat == 5 ? SUBACK : cat == 6 ? UNSUBACK : cat == 7 ? AUTH : DISCONNECT;
    const bk::SentPkt* probe = nullptr;
    for (auto& sp : B.sent) {
        if (sp.pkt.type != ptype || !sp.delivered_seq) continue;
        size_t off = (ptype == CONNACK) ? 3 : (ptype == SUBACK || ptype == UNSUBACK) ? sp.raw.size() - 1 : (ptype == DISCONNECT || ptype == AUTH) ? 2 : 4;
        if (sp.raw.size() > off && (uint8_t)sp.raw[off] == byte) { probe = &sp; break; }
    }
    std::string what = std::string(names[cat]) + " 0x" + hex(std::string(1, (char)byte));
    if (!probe) { fail("C20", "probe_not_delivered", what + ": the packet carrying this reason code was never delivered (harness)"); return; }
    // how did the client react? surfaced value / accepted / treated as malformed
    bool malformed_reaction = false;
    for (auto& r : B.recv) if (r.conn == probe->conn && r.seq > probe->delivered_seq && r.decode_err.empty() && r.pkt.type == DISCONNECT && (r.pkt.rc == 0x81 || r.pkt.rc == 0x82)) malformed_reaction = true;
    bool surfaced = false, accepted = false;
    switch (cat) {
    case 0: for (auto& l : s.logs) if (l.k == LogRec::connack && l.seq >= probe->delivered_seq && l.rc == byte) { surfaced = true; break; }
            // with several CONNACKs in the run (reconnects) only the probe's value matters
            accepted = surfaced; break;
    case 1: case 4: case 2: {
        for (auto& o : s.ops) if (o.kind == OpKind::publish && !o.dones.empty() && !o.dones[0].c.ec && o.dones[0].seq > probe->delivered_seq && o.dones[0].c.rc == byte) surfaced = true;
        if (cat == 2 && byte < 0x80) {
            // a successful PUBREC is not surfaced; accepted <=> the client went on with PUBREL on that connection
            for (auto& r : B.recv) if (r.conn == probe->conn && r.seq > probe->delivered_seq && r.decode_err.empty() && r.pkt.type == PUBREL && r.pkt.pid == probe->pkt.pid) accepted = true;
            surfaced = accepted;
        } else accepted = surfaced;
        break; }
    case 3: for (auto& r : B.recv) if (r.conn == probe->conn && r.seq > probe->delivered_seq && r.decode_err.empty() && r.pkt.type == PUBCOMP && r.pkt.pid == probe->pkt.pid) accepted = true;
            surfaced = accepted; break;
    case 5: case 6:
        for (auto& o : s.ops) if ((o.kind == OpKind::subscribe || o.kind == OpKind::unsubscribe) && !o.dones.empty() && !o.dones[0].c.ec && o.dones[0].seq > probe->delivered_seq &&
                                  o.dones[0].c.rcs.size() == 1 && o.dones[0].c.rcs[0] == byte) surfaced = true;
        accepted = surfaced; break;
    case 7: for (auto& l : s.logs) if (l.k == LogRec::auth_step && l.seq > probe->delivered_seq && l.step >= 1) { accepted = true; break; }
            // the first authenticator call after the probe must follow it directly (before any reconnect)
            for (auto& c2 : s.net.conns) if (c2->id > probe->conn && accepted) { bool before = false; for (auto& l : s.logs) if (l.k == LogRec::auth_step && l.seq > probe->delivered_seq && l.step >= 1 && l.seq < c2->seq_begin) before = true; accepted = before; break; }
            surfaced = accepted; break;
    case 8: for (auto& l : s.logs) if (l.k == LogRec::disconnect && l.seq >= probe->delivered_seq) { accepted = true; if (l.rc == byte) surfaced = true; break; }
            if (!listed_tab[8]->count(byte)) accepted = surfaced; break;
    }
    if (server_may && !surfaced)
        fail("C20", "admissible_code_not_accepted", what + " may be sent by a Server but was not accepted / not surfaced with that value" + (malformed_reaction ? " (the client answered with DISCONNECT malformed)" : ""));
    if (!listed && surfaced)
        fail("C20", "inadmissible_code_surfaced", what + " is not listed for this packet type in MQTT 5 but was accepted and surfaced");
    (void)accepted;
}

} // namespace app
