// Plan <-> JSON (Boost.JSON, header-only mode in this TU)
#include <boost/json/src.hpp>
#include "plan.hpp"

namespace app {
namespace json = boost::json;

static const char* SK_NAMES[] = {
    "Run", "Publish", "Subscribe", "Unsubscribe", "Receive", "CancelOp", "CancelClient", "Disconnect", "Destroy", "Recreate", "ReAuth", "PublishBurst",
    "BrokerPublish", "BrokerDisconnect", "BrokerRestart", "BrokerBurst",
    "FByteCut", "FProto", "FWriteErr", "FConnect", "FResolve", "FHandshake", "FSessionPresent", "FStall", "FClockJump",
    "FPingSilent", "FHostileWindow", "FShutdownDelay", "FRaceTimer",
    "Heal", "Wait"};

const char* sk_name(SK k) { return SK_NAMES[(int)k]; }
SK sk_from(const std::string& s) {
    for (int i = 0; i < (int)SK::COUNT; ++i) if (s == SK_NAMES[i]) return (SK)i;
    return SK::Wait;
}

static std::string hexenc(const std::string& s) {
    static const char* d = "0123456789abcdef"; std::string r;
    for (unsigned char c : s) { r.push_back(d[c >> 4]); r.push_back(d[c & 15]); }
    return r;
}
static std::string hexdec(const std::string& s) {
    std::string r; auto v = [](char c) { return c <= '9' ? c - '0' : c - 'a' + 10; };
    for (size_t i = 0; i + 1 < s.size(); i += 2) r.push_back((char)(v(s[i]) << 4 | v(s[i + 1])));
    return r;
}
// strings that are plain printable ASCII are stored verbatim, others as "hex:.."
static json::value jstr(const std::string& s) {
    bool plain = true;
    for (unsigned char c : s) if (c < 32 || c > 126) { plain = false; break; }
    if (plain && s.rfind("hex:", 0) != 0) return json::value(s);
    return json::value("hex:" + hexenc(s));
}
static std::string ustr(const json::value& v) {
    std::string s(v.as_string().c_str(), v.as_string().size());
    if (s.rfind("hex:", 0) == 0) return hexdec(s.substr(4));
    return s;
}

static json::array props_j(const mq::Props& ps) {
    json::array a;
    for (auto& p : ps) { json::object o; o["id"] = p.id; if (p.num) o["n"] = p.num; if (!p.s1.empty()) o["s"] = jstr(p.s1); if (!p.s2.empty()) o["v"] = jstr(p.s2); a.push_back(o); }
    return a;
}
static mq::Props props_u(const json::value& v) {
    mq::Props r;
    for (auto& e : v.as_array()) {
        auto& o = e.as_object(); mq::Prop p; p.id = (uint8_t)o.at("id").to_number<int>();
        if (o.contains("n")) p.num = o.at("n").to_number<uint32_t>();
        if (o.contains("s")) p.s1 = ustr(o.at("s"));
        if (o.contains("v")) p.s2 = ustr(o.at("v"));
        r.push_back(p);
    }
    return r;
}

template <class T> static void opt_j(json::object& o, const char* k, const std::optional<T>& v) { if (v) o[k] = *v; }
template <class T> static void opt_u(const json::object& o, const char* k, std::optional<T>& v) { if (o.contains(k)) v = (T)o.at(k).to_number<int64_t>(); }

static json::object caps_j(const bk::Caps& c) {
    json::object o;
    opt_j(o, "recv_max", c.recv_max); opt_j(o, "server_ka", c.server_ka); opt_j(o, "topic_alias_max", c.topic_alias_max);
    opt_j(o, "max_packet", c.max_packet); opt_j(o, "session_expiry", c.session_expiry); opt_j(o, "max_qos", c.max_qos);
    opt_j(o, "retain_avail", c.retain_avail); opt_j(o, "wildcard", c.wildcard); opt_j(o, "subid", c.subid); opt_j(o, "shared", c.shared);
    if (c.assigned_cid) o["assigned_cid"] = *c.assigned_cid;
    if (c.reason_string) o["reason_string"] = *c.reason_string;
    if (c.response_info) o["response_info"] = *c.response_info;
    if (c.server_ref) o["server_ref"] = *c.server_ref;
    json::array u; for (auto& kv : c.user) { json::array e; e.push_back(json::value(kv.first)); e.push_back(json::value(kv.second)); u.push_back(e); }
    if (!u.empty()) o["user"] = u;
    return o;
}
static bk::Caps caps_u(const json::object& o) {
    bk::Caps c;
    opt_u(o, "recv_max", c.recv_max); opt_u(o, "server_ka", c.server_ka); opt_u(o, "topic_alias_max", c.topic_alias_max);
    opt_u(o, "max_packet", c.max_packet); opt_u(o, "session_expiry", c.session_expiry); opt_u(o, "max_qos", c.max_qos);
    opt_u(o, "retain_avail", c.retain_avail); opt_u(o, "wildcard", c.wildcard); opt_u(o, "subid", c.subid); opt_u(o, "shared", c.shared);
    auto gs = [&](const char* k, std::optional<std::string>& v) { if (o.contains(k)) v = std::string(o.at(k).as_string().c_str()); };
    gs("assigned_cid", c.assigned_cid); gs("reason_string", c.reason_string); gs("response_info", c.response_info); gs("server_ref", c.server_ref);
    if (o.contains("user")) for (auto& e : o.at("user").as_array()) c.user.push_back({e.as_array()[0].as_string().c_str(), e.as_array()[1].as_string().c_str()});
    return c;
}

static json::object step_j(const Step& s) {
    json::object o;
    o["id"] = s.id; o["k"] = sk_name(s.kind); if (s.delay) o["dt"] = s.delay;
    if (s.a) o["a"] = s.a; if (s.b) o["b"] = s.b; if (s.c) o["c"] = s.c; if (s.d) o["d"] = s.d; if (s.t) o["t"] = s.t;
    if (!s.s1.empty()) o["s1"] = jstr(s.s1); if (!s.s2.empty()) o["s2"] = jstr(s.s2);
    if (!s.props.empty()) o["props"] = props_j(s.props);
    if (!s.subs.empty()) { json::array a; for (auto& t : s.subs) { json::object e; e["f"] = jstr(t.filter); e["o"] = t.opts; a.push_back(e); } o["subs"] = a; }
    if (!s.topics.empty()) { json::array a; for (auto& t : s.topics) a.push_back(jstr(t)); o["topics"] = a; }
    return o;
}
static Step step_u(const json::object& o) {
    Step s;
    auto gi = [&](const char* k, int dflt = 0) { return o.contains(k) ? (int)o.at(k).to_number<int64_t>() : dflt; };
    auto gl = [&](const char* k) { return o.contains(k) ? o.at(k).to_number<int64_t>() : (int64_t)0; };
    s.id = gi("id"); s.kind = sk_from(o.at("k").as_string().c_str()); s.delay = gl("dt");
    s.a = gi("a"); s.b = gi("b"); s.c = gi("c"); s.d = gi("d"); s.t = gl("t");
    if (o.contains("s1")) s.s1 = ustr(o.at("s1")); if (o.contains("s2")) s.s2 = ustr(o.at("s2"));
    if (o.contains("props")) s.props = props_u(o.at("props"));
    if (o.contains("subs")) for (auto& e : o.at("subs").as_array()) { mq::SubTopic t; t.filter = ustr(e.as_object().at("f")); t.opts = (uint8_t)e.as_object().at("o").to_number<int>(); s.subs.push_back(t); }
    if (o.contains("topics")) for (auto& e : o.at("topics").as_array()) s.topics.push_back(ustr(e));
    return s;
}

std::string plan_to_json(const Plan& p, bool) {
    json::object root;
    root["seed"] = p.seed;
    const Knobs& k = p.knobs;
    json::object kn;
    kn["profile"] = k.profile; kn["focus"] = k.focus; kn["variant"] = k.variant;
    kn["event_first_p"] = k.event_first_p; kn["resolve_delay_max"] = k.resolve_delay_max; kn["healed_suffix"] = k.healed_suffix;
    kn["shutdown_delay_max"] = k.shutdown_delay_max; kn["max_steps"] = k.max_steps; kn["final_heal"] = k.final_heal;
    { json::object c; const auto& cc = k.client;
      c["brokers"] = cc.brokers; c["default_port"] = cc.default_port; c["client_id"] = jstr(cc.client_id);
      c["username"] = jstr(cc.username); c["password"] = jstr(cc.password);
      if (cc.will) { json::object wj; wj["topic"] = jstr(cc.will->topic); wj["payload"] = jstr(cc.will->payload); wj["qos"] = cc.will->qos; wj["retain"] = cc.will->retain; wj["props"] = props_j(cc.will->props); c["will"] = wj; }
      if (cc.keep_alive) c["keep_alive"] = *cc.keep_alive;
      c["connect_props"] = props_j(cc.connect_props); c["use_authenticator"] = cc.use_authenticator; c["auth_method"] = cc.auth_method; c["auth_posted"] = cc.auth_posted;
      kn["client"] = c; }
    { json::array hs; for (auto& h : k.hosts) { json::object o; o["name"] = h.name; o["port"] = h.port; o["n_endpoints"] = h.n_endpoints; o["dead_mask"] = h.dead_mask; hs.push_back(o); } kn["hosts"] = hs; }
    { json::object b; const auto& bk = k.broker;
      b["ack_delay_max"] = bk.ack_delay_max; b["ack_zero_p"] = bk.ack_zero_p; b["ack_err_p"] = bk.ack_err_p; b["ack_props_p"] = bk.ack_props_p;
      b["short_form_p"] = bk.short_form_p; b["dup_ack_p"] = bk.dup_ack_p; b["session_loss_p"] = bk.session_loss_p; b["caps_change"] = bk.caps_change;
      b["base_caps"] = caps_j(bk.base_caps); b["auth_rounds"] = bk.auth_rounds; b["answer_ping"] = bk.answer_ping;
      b["respect_client_limits"] = bk.respect_client_limits; b["hostile"] = bk.hostile; b["hostile_p"] = bk.hostile_p;
      kn["broker"] = b; }
    { json::object n; const auto& nk = k.net;
      n["lat_min"] = nk.lat_min; n["lat_max"] = nk.lat_max; n["write_done_max"] = nk.write_done_max; n["write_done_zero_p"] = nk.write_done_zero_p; n["write_block_p"] = nk.write_block_p;
      n["short_write_p"] = nk.short_write_p; n["seg_split_p"] = nk.seg_split_p; n["coalesce_b2c"] = nk.coalesce_b2c; n["chunk_mode"] = nk.chunk_mode; n["connect_lat_max"] = nk.connect_lat_max;
      n["chunk_salt"] = nk.chunk_salt;
      kn["net"] = n; }
    root["knobs"] = kn;
    json::array st; for (auto& s : p.steps) st.push_back(step_j(s));
    root["steps"] = st;
    return json::serialize(root);
}

bool plan_from_json(const std::string& text, Plan& out, std::string* err) {
    try {
        auto v = json::parse(text);
        auto& root = v.as_object();
        out = Plan{};
        out.seed = root.at("seed").to_number<uint64_t>();
        auto& kn = root.at("knobs").as_object();
        Knobs& k = out.knobs;
        k.profile = kn.at("profile").as_string().c_str(); k.focus = kn.at("focus").as_string().c_str(); k.variant = (int)kn.at("variant").to_number<int>();
        k.event_first_p = kn.at("event_first_p").to_number<double>(); k.resolve_delay_max = kn.at("resolve_delay_max").to_number<int64_t>();
        k.healed_suffix = kn.at("healed_suffix").to_number<int64_t>(); k.shutdown_delay_max = kn.at("shutdown_delay_max").to_number<int64_t>();
        k.max_steps = (int)kn.at("max_steps").to_number<int64_t>(); k.final_heal = kn.at("final_heal").as_bool();
        { auto& c = kn.at("client").as_object(); auto& cc = k.client;
          cc.brokers = c.at("brokers").as_string().c_str(); cc.default_port = (uint16_t)c.at("default_port").to_number<int>();
          cc.client_id = ustr(c.at("client_id")); cc.username = ustr(c.at("username")); cc.password = ustr(c.at("password"));
          if (c.contains("will")) { auto& wj = c.at("will").as_object(); mq::Will wl; wl.topic = ustr(wj.at("topic")); wl.payload = ustr(wj.at("payload")); wl.qos = (uint8_t)wj.at("qos").to_number<int>(); wl.retain = wj.at("retain").as_bool(); wl.props = props_u(wj.at("props")); cc.will = wl; }
          if (c.contains("keep_alive")) cc.keep_alive = (uint16_t)c.at("keep_alive").to_number<int>();
          cc.connect_props = props_u(c.at("connect_props")); cc.use_authenticator = c.at("use_authenticator").as_bool(); cc.auth_method = c.at("auth_method").as_string().c_str(); if (c.contains("auth_posted")) cc.auth_posted = c.at("auth_posted").as_bool(); }
        for (auto& e : kn.at("hosts").as_array()) { auto& o = e.as_object(); HostCfg h; h.name = o.at("name").as_string().c_str(); h.port = (int)o.at("port").to_number<int>(); h.n_endpoints = (int)o.at("n_endpoints").to_number<int>(); h.dead_mask = (int)o.at("dead_mask").to_number<int>(); k.hosts.push_back(h); }
        { auto& b = kn.at("broker").as_object(); auto& bk = k.broker;
          bk.ack_delay_max = b.at("ack_delay_max").to_number<int64_t>(); bk.ack_zero_p = b.at("ack_zero_p").to_number<double>(); bk.ack_err_p = b.at("ack_err_p").to_number<double>();
          bk.ack_props_p = b.at("ack_props_p").to_number<double>(); bk.short_form_p = b.at("short_form_p").to_number<double>(); if (b.contains("dup_ack_p")) bk.dup_ack_p = b.at("dup_ack_p").to_number<double>(); bk.session_loss_p = b.at("session_loss_p").to_number<double>();
          bk.caps_change = b.at("caps_change").as_bool(); bk.base_caps = caps_u(b.at("base_caps").as_object()); bk.auth_rounds = (int)b.at("auth_rounds").to_number<int>();
          bk.answer_ping = b.at("answer_ping").as_bool(); bk.respect_client_limits = b.at("respect_client_limits").as_bool(); bk.hostile = b.at("hostile").as_bool(); bk.hostile_p = b.at("hostile_p").to_number<double>(); }
        { auto& n = kn.at("net").as_object(); auto& nk = k.net;
          nk.lat_min = n.at("lat_min").to_number<int64_t>(); nk.lat_max = n.at("lat_max").to_number<int64_t>(); nk.write_done_max = n.at("write_done_max").to_number<int64_t>();
          nk.write_done_zero_p = n.at("write_done_zero_p").to_number<double>(); if (n.contains("write_block_p")) nk.write_block_p = n.at("write_block_p").to_number<double>(); else nk.write_block_p = 0; nk.short_write_p = n.at("short_write_p").to_number<double>(); nk.seg_split_p = n.at("seg_split_p").to_number<double>(); if (n.contains("coalesce_b2c")) nk.coalesce_b2c = n.at("coalesce_b2c").as_bool();
          nk.chunk_mode = (int)n.at("chunk_mode").to_number<int>(); nk.connect_lat_max = n.at("connect_lat_max").to_number<int64_t>(); nk.chunk_salt = n.at("chunk_salt").to_number<uint64_t>(); }
        for (auto& e : root.at("steps").as_array()) out.steps.push_back(step_u(e.as_object()));
        return true;
    } catch (const std::exception& e) {
        if (err) *err = e.what();
        return false;
    }
}

std::string step_str(const Step& s) {
    std::string r = std::string(sk_name(s.kind)) + "#" + std::to_string(s.id);
    char b[160];
    snprintf(b, sizeof b, " dt=%.6f a=%d b=%d c=%d d=%d t=%.6f", s.delay / 1e9, s.a, s.b, s.c, s.d, s.t / 1e9);
    r += b;
    if (!s.s1.empty()) r += " s1=" + mq::hex(s.s1, 12);
    if (!s.s2.empty()) r += " s2=" + mq::hex(s.s2, 12);
    if (!s.props.empty()) r += " " + mq::props_str(s.props);
    return r;
}

} // namespace app
