// One simulated run: world + network + broker + resolver + the real client behind the
// facade, driven by a plan. The oracles inspect the finished Sim.
#pragma once
#include <set>
#include <deque>
#include <map>
#include <memory>
#include <string>
#include <vector>

#include "../broker/broker.hpp"
#include "../core/sim_resolver.hpp"
#include "../core/world.hpp"
#include "../net/network.hpp"
#include "iface.hpp"
#include "plan.hpp"

namespace app {

enum class OpKind { run, publish, subscribe, unsubscribe, receive, disconnect };

struct Done {
    uint64_t seq = 0; ns_t t = 0; Completion c; bool inside_init = false;
};

struct OpRec {
    int id = -1; int step_id = -1; OpKind kind = OpKind::run;
    int qos = 0; bool retain = false;
    std::string topic, payload; mq::Props props;
    std::vector<mq::SubTopic> subs; std::vector<std::string> topics;
    uint8_t rc = 0;                              // disconnect
    uint64_t init_seq = 0, init_done_seq = 0; ns_t init_t = 0;
    int client_gen = 0;                          // client object generation
    int svc_gen = 0;                             // service generation (bumped by cancel()/async_disconnect)
    bool client_running = false;                 // async_run outstanding on this service generation at initiation
    int slot = -1;
    std::vector<Done> dones;
    bool caller_cancelled = false; uint64_t cancel_seq = 0; int cancel_type = 0;
    mq::Props connack_snapshot; bool has_connack = false;   // connack_properties() at initiation
    bool after_heal = false;
    bool is_final_drain = false;
};

enum class MarkKind { run, cancel_client, disconnect_init, disconnect_done, destroy, recreate, heal, stall, clock_jump,
                      op_cancel, teardown_begin, teardown_end, suffix_end };
struct Mark { MarkKind kind; uint64_t seq; ns_t t; int op = -1; int64_t arg = 0; int svc_gen = 0; int client_gen = 0; };

struct LogRec {
    enum K { resolve, tcp_connect, connack, disconnect, auth_step } k;
    uint64_t seq = 0; ns_t t = 0; int ec = 0; std::string s1, s2; int n = 0;
    uint8_t rc = 0; bool session_present = false; mq::Props props; int step = 0;
};

struct Violation {
    std::string prop, oracle, detail;
    std::string signature() const { return prop + "/" + oracle; }
};

struct Sim : ClientObserver {
    explicit Sim(const Plan& p, bool keep_trace = false);
    ~Sim();

    const Plan& plan;
    sim::World w;
    sim::Network net;
    bk::Broker broker;
    sim::ResolverModel resolver;
    SignalPool signals;                          // outlive every operation of the run
    std::unique_ptr<IClient> client;
    int client_gen = 0, svc_gen = 0;
    bool running = false;                        // async_run outstanding on the current service
    bool ever_run = false;

    std::vector<OpRec> ops;
    std::vector<Mark> marks;
    std::vector<LogRec> logs;
    int cur_init_op = -1;
    int last_run_op = -1;

    // pending fault arms
    std::deque<sim::ConnectOutcome> connect_script;
    std::deque<int> resolve_script;              // 0 fail, 1 slow(>5s), 2 slow-then-ok(<5s)
    std::vector<Step> conn_faults_for_next;      // FByteCut/FWriteErr armed when no connection exists
    std::deque<ns_t> shutdown_delays;
    bool healed = false; uint64_t heal_seq = 0; ns_t heal_t = 0;
    ns_t suffix_end_t = 0; uint64_t suffix_end_seq = 0;
    bool budget_exhausted = false;
    bool livelock = false;
    std::string abort_reason;

    // teardown observations (C05)
    bool teardown_done = false;
    bool running_at_drain = false;               // the receive channel of a running client was drained at the end
    bool out_of_work_after_cancel = false;
    bool out_of_work_after_destroy = false;
    ns_t teardown_time_advance = 0;
    int resolver_pending_at_teardown = 0;

    // coverage measure: abstract states (connection phase, outstanding operations by kind, in-flight vs Receive Maximum, pending
    // transport operations and timers, ...) observed whenever virtual time is about to advance (i.e. at every quiescence)
    std::set<uint64_t> abstract_states;
    uint64_t abstract_state();
    void execute();                              // runs the whole plan incl. healed suffix and teardown
    void mark(MarkKind k, int op = -1, int64_t arg = 0);

    // ClientObserver
    void log_resolve(error_code ec, const std::string& host, const std::string& port, size_t n_eps) override;
    void log_tcp_connect(error_code ec, const std::string& ip, uint16_t port) override;
    void log_connack(uint8_t rc, bool session_present, const mq::Props& props) override;
    void log_disconnect(uint8_t rc, const mq::Props& props) override;
    std::pair<bool, std::string> auth_step(int step, const std::string& data, bool* posted) override;
    bool in_reauth_call = false;                 // inside client->re_authenticate(): the authenticator's client_initial belongs to the re-authentication
    uint64_t connack_log_step = 0;               // world step in which the client last logged a CONNACK
    int auth_fail_step = -1;                     // authenticator fails on this step (-1 never)

    int host_of(const std::string& name) const;
    sim::Conn* current_conn();

private:
    void exec_step(const Step& s, ns_t* next_override);
    void schedule_step(size_t i, ns_t at);
    void finish_plan();
    int new_op(OpKind k, const Step& s);
    CompletionFn cb(int op);
    void apply_conn_fault(const Step& s, sim::Conn& c);
    void make_client();
    size_t next_step_ = 0;
    bool plan_done_ = false;
};

std::vector<Violation> check_all(Sim& s, const std::string& only_prop = "");

// summary features of a run, for evidence (which triggers were reached)
std::map<std::string, uint64_t> run_features(Sim& s);

} // namespace app
