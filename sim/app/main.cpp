// simc: the simulator binary. Modes: run | worker | replay | shrink | gen | selftest
#include <set>
#include <chrono>
#include <cstdio>
#include <cstdlib>
#include <cstring>
#include <fstream>
#include <iostream>
#include <algorithm>
#include <memory>
#include <sstream>
#include <string>
#include <vector>

#include "run.hpp"
#include "shrink.hpp"

namespace sim { int64_t real_ns(); extern uint64_t g_clock_reads_system, g_clock_reads_steady, g_time_calls; }

extern "C" __attribute__((used)) const char* __asan_default_options() {
    return "exitcode=77:detect_leaks=0:abort_on_error=0:allocator_may_return_null=1:max_allocation_size_mb=4096";
}
extern "C" __attribute__((used)) const char* __ubsan_default_options() {
    return "print_stacktrace=1:halt_on_error=1:exitcode=77";
}

using namespace app;

static std::string jesc(const std::string& s) {
    std::string r;
    for (unsigned char c : s) {
        if (c == '"' || c == '\\') { r.push_back('\\'); r.push_back((char)c); }
        else if (c < 32 || c > 126) { char b[8]; snprintf(b, sizeof b, "\\u%04x", c); r += b; }
        else r.push_back((char)c);
    }
    return r;
}

struct Args {
    std::string mode, focus = "all", file, out, sig, only;
    uint64_t seed = 1, from = 1, count = 1, stride = 1;
    bool trace = false, verbose = false, features = true;
    int budget = 300;
};

static Plan plan_for(const std::string& focus, uint64_t seed) {
    if (focus == "C19diff") return generate_diff(seed);
    if (focus == "C08x") return generate_exhaust(seed);
    if (focus == "C06x") return generate_serialwrap(seed);
    if (focus == "C20x") return generate_rc(seed);
    if (focus == "C11x") return generate_c11x(seed);
    return generate(seed, focus);
}

static Args parse(int argc, char** argv) {
    Args a;
    if (argc > 1) a.mode = argv[1];
    for (int i = 2; i < argc; ++i) {
        std::string k = argv[i];
        auto val = [&]() -> std::string { return i + 1 < argc ? argv[++i] : ""; };
        if (k == "--seed") a.seed = strtoull(val().c_str(), nullptr, 10);
        else if (k == "--from") a.from = strtoull(val().c_str(), nullptr, 10);
        else if (k == "--count") a.count = strtoull(val().c_str(), nullptr, 10);
        else if (k == "--stride") a.stride = strtoull(val().c_str(), nullptr, 10);
        else if (k == "--focus") a.focus = val();
        else if (k == "--only") a.only = val();
        else if (k == "--file") a.file = val();
        else if (k == "--out") a.out = val();
        else if (k == "--sig") a.sig = val();
        else if (k == "--budget") a.budget = atoi(val().c_str());
        else if (k == "--trace") a.trace = true;
        else if (k == "-v") a.verbose = true;
    }
    return a;
}

static std::string result_line(uint64_t seed, Sim& s, const std::vector<Violation>& vs, double wall_ms) {
    std::ostringstream o;
    o << "{\"seed\":" << seed << ",\"hash\":\"" << std::hex << s.w.trace_hash << std::dec << "\""
      << ",\"profile\":\"" << s.plan.knobs.profile << "\",\"variant\":" << s.plan.knobs.variant
      << ",\"steps\":" << s.w.steps << ",\"handlers\":" << s.w.handlers_run << ",\"events\":" << s.w.events_fired
      << ",\"sim_ns\":" << s.w.now << ",\"conns\":" << s.net.conns.size() << ",\"ops\":" << s.ops.size()
      << ",\"plan_steps\":" << s.plan.steps.size()
      << ",\"wall_ms\":" << wall_ms
      << ",\"inconclusive\":" << (s.budget_exhausted ? 1 : 0)
      << ",\"violations\":[";
    for (size_t i = 0; i < vs.size(); ++i) {
        if (i) o << ",";
        o << "{\"prop\":\"" << vs[i].prop << "\",\"oracle\":\"" << jesc(vs[i].oracle) << "\",\"detail\":\"" << jesc(vs[i].detail) << "\"}";
    }
    o << "],\"counters\":{";
    bool first = true;
    for (auto& [k, v] : s.w.counters) { if (!first) o << ","; first = false; o << "\"" << jesc(k) << "\":" << v; }
    o << "},\"features\":{";
    first = true;
    for (auto& [k, v] : run_features(s)) { if (!first) o << ","; first = false; o << "\"" << jesc(k) << "\":" << v; }
    o << "}}";
    return o.str();
}

static int run_one(const Plan& plan, const Args& a, bool print_plan) {
    if (plan.knobs.focus == "C19diff") {
        auto t0 = sim::real_ns();
        Sim* s0 = nullptr;
        auto vs = run_diff(plan, &s0, nullptr);
        double ms = (sim::real_ns() - t0) / 1e6;
        puts(result_line(plan.seed, *s0, vs, ms).c_str());
        for (auto& v : vs) printf("VIOLATION-DETAIL %s %s: %s\n", v.prop.c_str(), v.oracle.c_str(), v.detail.c_str());
        return vs.empty() ? 0 : 1;
    }
    auto t0 = sim::real_ns();
    Sim s(plan, a.trace);
    s.execute();
    auto vs = check_all(s, a.only);
    double ms = (sim::real_ns() - t0) / 1e6;
    if (a.trace) for (auto& l : s.w.trace) puts(l.c_str());
    if (print_plan) for (auto& st : plan.steps) printf("PLAN %s\n", step_str(st).c_str());
    if (print_plan) {
        const char* kn[] = {"run", "publish", "subscribe", "unsubscribe", "receive", "disconnect"};
        for (auto& o : s.ops) {
            printf("OP %d %s step=%d q%d gen=%d/%d running=%d init@%llu t=%.6f cancelled=%d", o.id, kn[(int)o.kind], o.step_id, o.qos, o.client_gen, o.svc_gen,
                   (int)o.client_running, (unsigned long long)o.init_seq, o.init_t / 1e9, (int)o.caller_cancelled);
            for (auto& d : o.dones) printf(" | done@%llu t=%.6f ec=%s:%d rc=%d %s%s", (unsigned long long)d.seq, d.t / 1e9, d.c.ec.category().name(), d.c.ec.value(), d.c.rc,
                                          d.c.topic.c_str(), mq::props_str(d.c.props).c_str());
            printf("\n");
        }
        for (auto& m : s.marks) printf("MARK kind=%d seq=%llu t=%.6f op=%d arg=%lld gen=%d\n", (int)m.kind, (unsigned long long)m.seq, m.t / 1e9, m.op, (long long)m.arg, m.svc_gen);
        for (auto& m : s.broker.msgs) printf("MSG %d q%d %s st=%d sends=%d lost=%d pid=%d\n", m.id, m.qos, m.topic.c_str(), (int)m.st, m.sends, (int)m.session_lost, m.pid);
    }
    puts(result_line(plan.seed, s, vs, ms).c_str());
    for (auto& v : vs) printf("VIOLATION-DETAIL %s %s: %s\n", v.prop.c_str(), v.oracle.c_str(), v.detail.c_str());
    return vs.empty() ? 0 : 1;
}

int main(int argc, char** argv) {
    Args a = parse(argc, argv);
    // self-test of the clock interposition: must take effect, else the machinery is broken
    {
        auto before = sim::g_clock_reads_system;
        auto t = std::chrono::system_clock::now();
        (void)t;
        auto st = std::chrono::steady_clock::now();
        (void)st;
        time_t tt = time(nullptr);
        (void)tt;
        if (sim::g_clock_reads_system == before || sim::g_clock_reads_steady == 0 || sim::g_time_calls == 0) {
            fprintf(stderr, "FATAL: clock interposition not effective\n");
            return 2;
        }
    }
    if (a.mode == "selftest") { puts("selftest ok"); return 0; }
    if (a.mode == "gen") {
        Plan p = plan_for(a.focus, a.seed);
        puts(plan_to_json(p).c_str());
        return 0;
    }
    if (a.mode == "run") {
        Plan p = plan_for(a.focus, a.seed);
        return run_one(p, a, a.verbose);
    }
    if (a.mode == "replay") {
        std::ifstream f(a.file);
        std::stringstream ss; ss << f.rdbuf();
        Plan p; std::string err;
        std::string text = ss.str();
        // a replay file wraps the plan: {"plan": {...}, ...} or is the plan itself
        if (!plan_from_replay(text, p, &err)) { fprintf(stderr, "cannot parse %s: %s\n", a.file.c_str(), err.c_str()); return 2; }
        if (a.focus == "C19diff") {   // a plan of the chunking differential: run it under the three chunkings
            static Plan sp; sp = p;
            Sim* s0 = nullptr;
            auto t0 = sim::real_ns();
            auto vs = run_diff(sp, &s0, nullptr);
            puts(result_line(sp.seed, *s0, vs, (sim::real_ns() - t0) / 1e6).c_str());
            for (auto& v : vs) printf("VIOLATION-DETAIL %s %s: %s\n", v.prop.c_str(), v.oracle.c_str(), v.detail.c_str());
            return vs.empty() ? 0 : 1;
        }
        return run_one(p, a, a.verbose);
    }
    if (a.mode == "worker") {
        int rc = 0;
        std::set<uint64_t> states;
        for (uint64_t i = 0; i < a.count; ++i) {
            uint64_t seed = a.from + i * a.stride;
            printf("START %llu\n", (unsigned long long)seed);
            fflush(stdout);
            if (a.focus == "C19diff") {
                Plan p = generate_diff(seed);
                auto t0 = sim::real_ns();
                Sim* s0 = nullptr;
                auto vs = run_diff(p, &s0, nullptr);
                double ms = (sim::real_ns() - t0) / 1e6;
                puts(result_line(seed, *s0, vs, ms).c_str());
                fflush(stdout);
                if (!vs.empty()) rc = 1;
                continue;
            }
            Plan p = plan_for(a.focus, seed);
            auto t0 = sim::real_ns();
            Sim s(p, false);
            s.execute();
            auto vs = check_all(s, a.only);
            double ms = (sim::real_ns() - t0) / 1e6;
            puts(result_line(seed, s, vs, ms).c_str());
            fflush(stdout);
            if (!vs.empty()) rc = 1;
            states.insert(s.abstract_states.begin(), s.abstract_states.end());
        }
        {   // union of the abstract states seen by this worker (coverage measure for the evidence)
            std::string l = "STATES";
            for (auto h : states) { char b[24]; snprintf(b, sizeof b, " %llx", (unsigned long long)h); l += b; }
            puts(l.c_str());
        }
        puts("END");
        return rc;
    }
    if (a.mode == "shrink") {
        Plan p;
        if (!a.file.empty()) {
            std::ifstream f(a.file); std::stringstream ss; ss << f.rdbuf(); std::string err;
            if (!plan_from_replay(ss.str(), p, &err)) { fprintf(stderr, "cannot parse: %s\n", err.c_str()); return 2; }
        } else p = plan_for(a.focus, a.seed);
        return shrink_main(p, a.sig, a.out, a.budget);
    }
    fprintf(stderr, "usage: simc run|worker|replay|shrink|gen|selftest ...\n");
    return 2;
}
