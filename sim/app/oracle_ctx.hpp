// shared context of all oracles (indices over the recorded history)
#pragma once
#include "run.hpp"

#include <boost/asio/error.hpp>
#include <algorithm>
#include <cstdio>
#include <set>
#include <sstream>

namespace app {

using namespace mq;
using sim::SEC; using sim::MS;
namespace asio = boost::asio;

struct Ctx {
    Sim& s;
    std::vector<Violation> out;
    std::string only;
    bool hostile_run;

    std::map<int, int> pub_op_by_step, sub_op_by_step, unsub_op_by_step;   // tag -> op id
    std::map<int, std::vector<int>> pub_receipts;      // op -> RecvPkt idx (PUBLISH)
    std::map<int, std::vector<int>> sub_receipts, unsub_receipts;
    std::vector<std::vector<int>> recv_by_conn;

    explicit Ctx(Sim& sim, const std::string& o) : s(sim), only(o), hostile_run(sim.plan.knobs.profile == "hostile") {
        for (auto& op : s.ops) {
            if (op.kind == OpKind::publish) pub_op_by_step[op.step_id] = op.id;
            if (op.kind == OpKind::subscribe) sub_op_by_step[op.step_id] = op.id;
            if (op.kind == OpKind::unsubscribe) unsub_op_by_step[op.step_id] = op.id;
        }
        recv_by_conn.resize(s.net.conns.size());
        for (auto& r : s.broker.recv) {
            if (r.conn >= 0 && r.conn < (int)recv_by_conn.size()) recv_by_conn[r.conn].push_back(r.idx);
            if (!r.decode_err.empty()) continue;
            if (r.pkt.type == PUBLISH) { int op = op_of_topic(r.pkt.topic); if (op >= 0) pub_receipts[op].push_back(r.idx); }
            if (r.pkt.type == SUBSCRIBE && !r.pkt.subs.empty()) { int op = op_of_filter(r.pkt.subs[0].filter, sub_op_by_step); if (op >= 0) sub_receipts[op].push_back(r.idx); }
            if (r.pkt.type == UNSUBSCRIBE && !r.pkt.unsubs.empty()) { int op = op_of_unsub(r.pkt.unsubs[0]); if (op >= 0) unsub_receipts[op].push_back(r.idx); }
        }
        build_gen_intervals();
    }

    // runs in which the broker repeats acknowledgements use the relaxed witness rule of C01/C14
    // Bytes delivered to the client at seq d are parsed some time before its next read on that connection starts
    // (assemble_op only reads when no complete packet is buffered): an upper bound of when a delivered packet was processed.
    uint64_t processed_by(int conn, uint64_t d) const {
        if (getenv("SIM_OLD_WINDOW")) return d;
        for (auto& rr : s.net.reads) if (rr.conn == conn && rr.seq_start > d) return rr.seq_start;
        return UINT64_MAX;
    }
    bool relaxed_witness() const { return s.plan.knobs.broker.dup_ack_p > 0; }
    bool want(const char* prop) const { return only.empty() || only == "all" || only == prop; }

    void fail(const char* prop, const char* oracle, const std::string& detail) {
        if (!want(prop)) return;
        for (auto& v : out) if (v.prop == prop && v.oracle == oracle) return;   // one per class per run
        // details quote bytes that came from the wire: keep them printable ASCII (JSON, terminals, replay files)
        std::string clean; clean.reserve(detail.size());
        for (unsigned char ch : detail) {
            if (ch >= 0x20 && ch < 0x7f) clean.push_back((char)ch);
            else { static const char* hx = "0123456789abcdef"; clean += "\\x"; clean.push_back(hx[ch >> 4]); clean.push_back(hx[ch & 15]); }
        }
        out.push_back(Violation{prop, oracle, clean});
    }

    int op_of_topic(const std::string& t) const {
        if (t.rfind("t/", 0) != 0) return -1;
        int id = atoi(t.c_str() + 2);
        auto it = pub_op_by_step.find(id);
        return it == pub_op_by_step.end() ? -1 : it->second;
    }
    static int tag_of_filter(const std::string& f) {
        size_t p = f.find("f/");
        if (p == std::string::npos) return -1;
        return atoi(f.c_str() + p + 2);
    }
    int op_of_filter(const std::string& f, const std::map<int, int>& m) const {
        int id = tag_of_filter(f);
        auto it = m.find(id);
        return it == m.end() ? -1 : it->second;
    }
    int op_of_unsub(const std::string& f) const {
        size_t p = f.rfind("/u");
        if (p == std::string::npos) return -1;
        int id = atoi(f.c_str() + p + 2);
        auto it = unsub_op_by_step.find(id);
        return it == unsub_op_by_step.end() ? -1 : it->second;
    }

    const Done* done(const OpRec& o) const { return o.dones.empty() ? nullptr : &o.dones[0]; }

    // is a completion with operation_aborted justified by something the caller did?
    bool abort_justified(const OpRec& o, uint64_t upto) const {
        if (o.caller_cancelled && o.cancel_seq <= upto) return true;
        if (!o.client_running) return true;     // initiated on a service that was not running
        for (auto& m : s.marks) {
            if (m.seq > upto) break;
            switch (m.kind) {
            case MarkKind::cancel_client: case MarkKind::disconnect_init:
                if (m.svc_gen == o.svc_gen) return true;
                break;
            case MarkKind::destroy:
                if (m.client_gen == o.client_gen) return true;
                break;
            case MarkKind::op_cancel:
                if (m.arg == 1 && m.svc_gen == o.svc_gen) return true;    // terminal cancellation cancels the service
                break;
            default: break;
            }
        }
        return false;
    }

    bool is_transport_ec(const error_code& ec) const {
        if (!ec) return false;
        std::string cat = ec.category().name();
        return cat != "mqtt_client_error";
    }

    std::string opstr(const OpRec& o) const {
        std::ostringstream ss;
        const char* k[] = {"run", "publish", "subscribe", "unsubscribe", "receive", "disconnect"};
        ss << "op#" << o.id << "(" << k[(int)o.kind];
        if (o.kind == OpKind::publish) ss << " q" << o.qos << " step " << o.step_id;
        ss << " init@" << o.init_seq << ")";
        return ss.str();
    }

    bool conn_hostile(int conn) const { auto* c = s.broker.bc(conn); return c && c->hostile_touched; }
    bool any_hostile_between(uint64_t a, uint64_t b) const {
        for (auto& sp : s.broker.sent) if (sp.hostile && sp.seq >= a && sp.seq <= b) return true;
        return false;
    }


    // part 1 (oracles.cpp)
    void c05(); void c02(); void c01(); void c14(); void c03(); void c06(); void c07(); void online(); void c08(); void c17();
    bool pub_matches(const OpRec& o, const Packet& p) const;
    // part 2 (oracles2.cpp)
    void c04(); void c10(); void c11(); void c11x(); void c12(); void c13();
    // part 3 (oracles3.cpp)
    void c09(); void c15(); void c18(); void c19(); void c20x();
    // activity interval of each service generation: [first initiation, last completion] of its operations.
    // While two generations are active (a service winding down after async_disconnect/cancel()/destruction and its
    // successor already running) network events cannot be attributed to one of them.
    std::map<int, std::pair<uint64_t, uint64_t>> gen_iv;
    void build_gen_intervals() {
        for (auto& o : s.ops) {
            auto it = gen_iv.find(o.svc_gen);
            uint64_t end = o.dones.empty() ? UINT64_MAX : o.dones[0].seq;
            if (it == gen_iv.end()) gen_iv[o.svc_gen] = {o.init_seq, end};
            else { it->second.first = std::min(it->second.first, o.init_seq); it->second.second = std::max(it->second.second, end); }
        }
        // an uncancellable resolve keeps the old service busy beyond its last completion: extend to the resolve's end
        for (auto& [g, iv] : gen_iv)
            for (auto& r : s.resolver.log) if (r.seq <= iv.second && r.seq >= iv.first && r.seq_done > iv.second) iv.second = r.seq_done;
        // every client service object owns one resolver object: [first resolve started, last resolve finished] of each
        // is an exact lower bound of that service's activity (a wound-down service may start one more resolution when
        // its last one finally completes: resolve_op does not look at is_open())
        for (auto& r : s.resolver.log) {
            if (r.inst < 0) continue;
            uint64_t end = r.seq_done ? r.seq_done : UINT64_MAX;
            auto it = inst_iv.find(r.inst);
            if (it == inst_iv.end()) inst_iv[r.inst] = {r.seq, end};
            else { it->second.first = std::min(it->second.first, r.seq); it->second.second = std::max(it->second.second, end); }
        }
    }
    std::map<int, std::pair<uint64_t, uint64_t>> inst_iv;
    // is some service generation other than `g` active at seq x?
    bool other_gen_active(int g, uint64_t x) const {
        for (auto& [k, iv] : gen_iv) if (k != g && iv.first <= x && iv.second >= x) return true;
        int n = 0; for (auto& [k, iv] : inst_iv) if (iv.first <= x && iv.second >= x) ++n;
        return n >= 2;
    }
    bool multi_gen_active(uint64_t a, uint64_t b) const {
        int n = 0;
        for (auto& [g, iv] : gen_iv) if (iv.first <= b && iv.second >= a) ++n;
        int m = 0; for (auto& [k, iv] : inst_iv) if (iv.first <= b && iv.second >= a) ++m;
        return n >= 2 || m >= 2;
    }
    ns_t stall_between(uint64_t a, uint64_t b) const {
        ns_t t = 0; for (auto& m : s.marks) if (m.kind == MarkKind::stall && m.seq >= a && m.seq <= b) t += m.arg; return t;
    }
    bool boundary_between(uint64_t a, uint64_t b) const {
        for (auto& m : s.marks)
            // (an async_run is a boundary too: after a terminal per-operation cancellation the SAME service object is run again, and its
            // wound-down reconnect loop may have started one more name resolution in between - resolve_op does not look at is_open())
            if (m.seq > a && m.seq < b && (m.kind == MarkKind::cancel_client || m.kind == MarkKind::disconnect_init || m.kind == MarkKind::destroy ||
                                           m.kind == MarkKind::recreate || m.kind == MarkKind::run || (m.kind == MarkKind::op_cancel && m.arg == 1))) return true;
        return false;
    }
};

} // namespace app
