// The generated program of one run: knobs (configuration of client, broker, network)
// and steps (API calls, broker actions, faults). Every subsequence of steps is a valid
// plan; operands that refer to things that may not exist are interpreted modulo what
// exists. Stored verbatim in replay files.
#pragma once
#include <cstdint>
#include <string>
#include <vector>

#include "../broker/broker.hpp"
#include "../core/world.hpp"
#include "iface.hpp"

namespace app {

using sim::ns_t;

enum class SK : int {
    // application
    Run, Publish, Subscribe, Unsubscribe, Receive, CancelOp, CancelClient, Disconnect, Destroy, Recreate, ReAuth, PublishBurst,
    // broker
    BrokerPublish, BrokerDisconnect, BrokerRestart, BrokerBurst,
    // faults
    FByteCut, FProto, FWriteErr, FConnect, FResolve, FHandshake, FSessionPresent, FStall, FClockJump,
    FPingSilent, FHostileWindow, FShutdownDelay, FRaceTimer,
    // structure
    Heal, Wait,
    COUNT
};
const char* sk_name(SK k);
SK sk_from(const std::string& s);

struct Step {
    int id = 0;                 // stable identity (keyed randomness, shrinking)
    SK kind = SK::Wait;
    ns_t delay = 0;             // virtual time between the previous step and this one
    // generic operands; meaning depends on kind (see driver.cpp)
    int a = 0, b = 0, c = 0, d = 0;
    ns_t t = 0;
    std::string s1, s2;
    mq::Props props;
    std::vector<mq::SubTopic> subs;
    std::vector<std::string> topics;
};

struct HostCfg {
    std::string name;           // as it appears in the broker list
    int port = 1883;
    int n_endpoints = 1;        // endpoints the resolver returns for it
    int dead_mask = 0;          // bit i: endpoint i refuses connections
};

struct Knobs {
    std::string profile = "clean";     // clean | faulty | quirky | hostile
    std::string focus;                 // property id the generator was steered by
    int variant = 0;                   // 0 = stream A, 1 = socket B
    ClientConfig client;
    std::vector<HostCfg> hosts;
    bk::Knobs broker;
    sim::NetKnobs net;
    double event_first_p = 0.5;
    ns_t resolve_delay_max = 5 * sim::MS;
    ns_t healed_suffix = 200 * sim::SEC;   // bound B
    ns_t shutdown_delay_max = 0;           // variant A layered shutdown
    int max_steps = 400000;
    bool final_heal = true;                // append Heal + suffix wait + liveness checks
};

struct Plan {
    uint64_t seed = 0;
    Knobs knobs;
    std::vector<Step> steps;
};

std::string plan_to_json(const Plan& p, bool pretty = false);
bool plan_from_json(const std::string& s, Plan& out, std::string* err);
std::string step_str(const Step& s);

// generation
Plan generate(uint64_t seed, const std::string& focus);
Plan generate_c11x(uint64_t seed);   // the reconnect machinery on its own (mini client over detail::autoconnect_stream)
// plan for the C19 chunking differential: one connection, a burst of QoS 0 messages (some mutated) in one segment
Plan generate_diff(uint64_t seed);
// identifier exhaustion (65535 + n outstanding QoS 1 publishes) and identifier leak (70000 rejected requests) scenarios (C08, C15)
Plan generate_exhaust(uint64_t seed);
// serial-number wrap (C06): a QoS>0 publish stays unacknowledged while 2^15 .. 2^16+ further publishes are initiated, then another
// QoS>0 publish, then the connection is given up: the retransmissions must still leave in initiation order
Plan generate_serialwrap(uint64_t seed);
// C20: one short exchange per (category, reason-code byte, chunking); index = chunk * 2304 + category * 256 + byte
Plan generate_rc(uint64_t index);

} // namespace app
