// C19 chunking differential: the same plan under three read chunkings must yield the same logical trace
#include <algorithm>
#include <memory>
#include <sstream>

#include "shrink.hpp"

namespace app {

// ---- C19 chunking differential: the same plan under three read chunkings must yield the same logical trace
std::string logical_trace(Sim& s) {
    std::ostringstream o;
    // what the application saw, in order
    std::vector<std::pair<uint64_t, std::string>> ev;
    for (auto& op : s.ops) for (auto& d : op.dones) {
        if (op.is_final_drain && d.c.ec) continue;
        std::ostringstream e;
        e << "op" << (int)op.kind << " ec=" << d.c.ec.value() << " rc=" << (int)d.c.rc << " t=" << d.c.topic << " pl=" << sim::hash_str(d.c.payload) << " " << mq::props_str(d.c.props);
        ev.push_back({d.seq, e.str()});
    }
    std::sort(ev.begin(), ev.end());
    // completions of receive ops are compared as a sequence of contents (which op object received them is irrelevant)
    for (auto& e : ev) o << e.second.substr(e.second.find(' ')) << "\n";
    // what the client reported / sent as a reaction
    for (auto& l : s.logs) if (l.k == LogRec::connack || l.k == LogRec::disconnect) o << "log" << (int)l.k << " rc=" << (int)l.rc << " " << mq::props_str(l.props) << "\n";
    for (auto& r : s.broker.recv) {
        if (r.pkt.type == mq::CONNECT) { o << "conn " << r.conn << " CONNECT\n"; continue; }
        o << "conn " << r.conn << " " << (r.decode_err.empty() ? mq::packet_str(r.pkt) : std::string("UNDECODABLE")) << "\n";
    }
    return o.str();
}

std::vector<Violation> run_diff(const Plan& base, Sim** keep, std::string* detail) {
    std::vector<Violation> out;
    std::string ref; int ref_mode = -1;
    static std::unique_ptr<Sim> first;
    first.reset();
    static Plan plans[3];           // a Sim refers to its plan: keep them alive as long as `first`
    for (int mode : {0, 1, 2}) {
        Plan& p = plans[mode];
        p = base;
        p.knobs.net.chunk_mode = mode;
        p.knobs.net.chunk_salt = mode == 2 ? 0x9e3779b9ull : 0;
        const char* tr = getenv("SIMC_DIFF_TRACE");            // debugging aid: print the event trace of one chunking
        auto s = std::make_unique<Sim>(p, tr && atoi(tr) == mode + 1);
        s->execute();
        if (tr && atoi(tr) == mode + 1) for (auto& l : s->w.trace) puts(l.c_str());
        std::string t = logical_trace(*s);
        if (s->livelock) out.push_back({"C19", "livelock", "chunk mode " + std::to_string(mode)});
        if (ref_mode < 0) { ref = t; ref_mode = mode; }
        else if (t != ref && out.empty()) {
            // first differing line
            std::istringstream a(ref), b(t); std::string la, lb; int n = 0;
            while (true) { bool ea = !std::getline(a, la), eb = !std::getline(b, lb); ++n; if (ea && eb) break; if (ea || eb || la != lb) break; }
            // K13: a well-formed server DISCONNECT in the burst: what is buffered BEHIND it in the same read is still parsed and
            // delivered, what arrives in a later read is not (the client is shutting the connection down by then)
            bool srv_disc = false;
            for (auto& l : s->logs) if (l.k == LogRec::disconnect) srv_disc = true;
            if (first) for (auto& l : first->logs) if (l.k == LogRec::disconnect) srv_disc = true;
            out.push_back({"C19", srv_disc ? "chunking_dependent_after_server_disconnect" : "chunking_dependent", "logical trace differs between read chunking 0 (everything available) and " + std::to_string(mode) +
                           (mode == 1 ? " (single bytes)" : " (random sizes)") + " at line " + std::to_string(n) + ": '" + la.substr(0, 120) + "' vs '" + lb.substr(0, 120) + "'"});
        }
        if (mode == 0) first = std::move(s);
    }
    if (keep) *keep = first.get();
    (void)detail;
    return out;
}


} // namespace app
