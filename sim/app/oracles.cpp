// Oracles part 1: C01 C02 C03 C05 C06 C07(online) C08 C14 C17, evaluated over the recorded
// history of one finished run. Every oracle states an implication of the property; none
// demands more than the property says (DESIGN.md 5.0).
#include "oracle_ctx.hpp"

namespace app {

    // ------------------------------------------------------------------ C05
void Ctx::c05() {
        for (auto& o : s.ops) {
            if (o.dones.size() > 1)
                fail("C05", "completed_twice", opstr(o) + " completion handler invoked " + std::to_string(o.dones.size()) + " times");
            for (auto& d : o.dones)
                if (d.inside_init) fail("C05", "reentrant_completion", opstr(o) + " handler invoked from inside the initiating call");
        }
        if (s.budget_exhausted || s.livelock) return;
        if (s.teardown_done) {
            for (auto& o : s.ops)
                if (o.dones.empty())
                    fail("C05", "never_completed", opstr(o) + " never completed although the client was cancelled and destroyed and the context drained");
            if (s.resolver_pending_at_teardown == 0 && s.teardown_time_advance != 0)
                fail("C05", "drain_needs_time", "draining after cancel() advanced virtual time by " + std::to_string(s.teardown_time_advance) + " ns");
            if (!s.out_of_work_after_cancel)
                fail("C05", "work_left_after_cancel", "io_context still has outstanding work after cancel() and a full drain (leaked handler, timer or work guard)");
            if (!s.out_of_work_after_destroy)
                fail("C05", "work_left_after_destroy", "io_context still has outstanding work after destruction and a full drain");
        }
        // explicit cancel()/finished async_disconnect in the plan: everything outstanding completes, at that instant
        for (auto& m : s.marks) {
            if (m.kind != MarkKind::cancel_client && m.kind != MarkKind::disconnect_init) continue;
            ns_t limit_t = m.t; uint64_t limit_seq = UINT64_MAX;
            const OpRec* disc = nullptr;
            if (m.kind == MarkKind::disconnect_init) {
                disc = &s.ops[m.op];
                if (disc->dones.empty()) continue;     // judged by never_completed / C09
                limit_t = disc->dones[0].t;
            }
            // slack: stalls injected after the mark, and an uncancellable resolve in progress
            ns_t slack = 0;
            for (auto& k : s.marks) if (k.kind == MarkKind::stall && k.seq > m.seq) slack += k.arg;
            bool resolve_pending = false;
            uint64_t win_end = disc ? disc->dones[0].seq : m.seq;
            for (auto& r : s.resolver.log) if (r.seq < win_end && (r.seq_done == 0 || r.seq_done > m.seq)) resolve_pending = true;
            for (auto& o : s.ops) {
                if (o.svc_gen != m.svc_gen || o.init_seq > m.seq) continue;
                if (&o == disc) continue;
                const Done* d = done(o);
                if (d && d->seq < m.seq) continue;           // already complete
                if (!d) continue;                             // never_completed covers it
                if (resolve_pending) continue;     // a running resolve cannot be cancelled (real resolver likewise); whatever waits behind it is late
                {   // ... including a resolve that the winding-down reconnect loop still starts (endpoints.hpp does not look at is_open())
                    bool behind_resolve = false;
                    for (auto& r : s.resolver.log) if (r.seq >= m.seq && r.seq <= d->seq) behind_resolve = true;
                    if (behind_resolve) continue;
                }
                if (d->t > limit_t + slack) {
                    fail("C05", m.kind == MarkKind::cancel_client ? "cancel_not_prompt" : "disconnect_leaves_ops",
                         opstr(o) + " outstanding at " + (m.kind == MarkKind::cancel_client ? "cancel()" : "async_disconnect") + " (t=" +
                         std::to_string(m.t) + ") completed only at t=" + std::to_string(d->t) + " limit " + std::to_string(limit_t));
                }
                (void)limit_seq;
                if (d->c.ec && d->c.ec != asio::error::operation_aborted && is_transport_ec(d->c.ec))
                    fail("C05", "cancel_wrong_code", opstr(o) + " completed with " + d->c.ec.message() + " after cancel");
            }
        }
    }

    // ------------------------------------------------------------------ C02
void Ctx::c02() {
        for (auto& o : s.ops) {
            bool tracked = (o.kind == OpKind::publish && o.qos > 0) || o.kind == OpKind::subscribe || o.kind == OpKind::unsubscribe;
            if (!tracked) continue;
            const Done* d = done(o);
            if (d && d->c.ec) {
                if (d->c.ec == asio::error::operation_aborted) {
                    if (!abort_justified(o, d->seq))
                        fail("C02", "aborted_without_cancel", opstr(o) + " completed with operation_aborted although nobody cancelled it");
                } else if (is_transport_ec(d->c.ec)) {
                    fail("C02", "transport_error_surfaced", opstr(o) + " completed with " + d->c.ec.category().name() + ":" +
                         std::to_string(d->c.ec.value()) + " (" + d->c.ec.message() + ")");
                }
            }
        }
        if (s.budget_exhausted || s.livelock || !s.plan.knobs.final_heal) return;
        // (b) bounded liveness in the healed suffix
        int final_gen = -1; bool running_at_end = false;
        for (auto& o : s.ops) if (o.kind == OpKind::run) {
            const Done* d = done(o);
            if (o.init_seq < s.suffix_end_seq && (!d || d->seq > s.suffix_end_seq)) { running_at_end = true; final_gen = o.svc_gen; }
        }
        if (running_at_end) {
            for (auto& m : s.marks)
                if (m.seq < s.suffix_end_seq && m.svc_gen == final_gen &&
                    (m.kind == MarkKind::cancel_client || m.kind == MarkKind::disconnect_init || (m.kind == MarkKind::op_cancel && m.arg == 1)))
                    running_at_end = false;
        }
        if (running_at_end) {
            for (auto& o : s.ops) {
                bool tracked = (o.kind == OpKind::publish && o.qos > 0) || o.kind == OpKind::subscribe || o.kind == OpKind::unsubscribe;
                if (!tracked || o.svc_gen != final_gen || o.caller_cancelled || !o.client_running) continue;
                if (o.init_seq > s.suffix_end_seq) continue;
                const Done* d = done(o);
                if (!d || d->seq > s.suffix_end_seq)
                {
                    fail("C02", "not_completed_after_heal", opstr(o) + " still outstanding " + std::to_string((s.suffix_end_t - s.heal_t) / SEC) +
                         " s after the last fault (heal at t=" + std::to_string(s.heal_t / 1000000) + " ms)");
                    // C19: malformed traffic is followed by normal recovery
                    if (hostile_run) fail("C19", "no_recovery_after_hostile_traffic", opstr(o) + " still outstanding " + std::to_string((s.suffix_end_t - s.heal_t) / SEC) +
                         " s after the broker stopped sending malformed packets");
                }
            }
        }
        // (c) same packet identifier on every transmission (PUBLISH: see also C03)
        auto same_pid = [&](const std::map<int, std::vector<int>>& m, const char* what) {
            for (auto& [op, rs] : m) {
                std::set<uint16_t> pids;
                for (int ri : rs) pids.insert(s.broker.recv[ri].pkt.pid);
                if (pids.size() > 1)
                    fail("C02", "retransmitted_with_other_pid", opstr(s.ops[op]) + " " + what + " transmitted with " + std::to_string(pids.size()) + " different packet identifiers");
            }
        };
        same_pid(sub_receipts, "SUBSCRIBE"); same_pid(unsub_receipts, "UNSUBSCRIBE");
        {
            std::map<int, std::vector<int>> q;
            for (auto& [op, rs] : pub_receipts) if (s.ops[op].qos > 0) q[op] = rs;
            same_pid(q, "PUBLISH");
        }
        // retransmission on the next connection after the heal
        if (s.healed) {
            auto check_resend = [&](const std::map<int, std::vector<int>>& m, uint8_t type) {
                for (auto& [opid, rs] : m) {
                    auto& o = s.ops[opid];
                    if (o.caller_cancelled || (o.kind == OpKind::publish && o.qos == 0)) continue;
                    const Done* d = done(o);
                    if (!d || d->c.ec) continue;
                    if (d->seq < s.heal_seq) continue;
                    int first_conn = s.broker.recv[rs.front()].conn;
                    // connection on which it completed: the last receipt's (or a PUBREL's)
                    for (size_t ci = first_conn + 1; ci < s.net.conns.size(); ++ci) {
                        auto& nc = *s.net.conns[ci];
                        auto* bc = s.broker.bc((int)ci);
                        if (!bc || bc->connack_sent_idx < 0) continue;
                        if (nc.seq_established < s.heal_seq) continue;                 // only fault-free connections are judged
                        auto& ca = s.broker.sent[bc->connack_sent_idx];
                        if (!ca.delivered_seq || ca.delivered_seq > d->seq) continue;  // op completed before this connection was up
                        if (nc.fault_injected || bc->hostile_touched) continue;
                        if (other_gen_active(o.svc_gen, nc.seq_begin) || other_gen_active(o.svc_gen, nc.seq_established)) continue;   // may be another service object's connection
                        // did the client send anything after the handshake here?
                        bool sent_any = false, present = false;
                        for (int ri : recv_by_conn[ci]) {
                            auto& r = s.broker.recv[ri];
                            if (r.during_handshake || !r.decode_err.empty()) continue;
                            if (r.seq > d->seq) break;
                            sent_any = true;
                            if (r.pkt.type == type && r.pkt.pid == s.broker.recv[rs.front()].pkt.pid) present = true;
                            if (type == PUBLISH && r.pkt.type == PUBREL && r.pkt.pid == s.broker.recv[rs.front()].pkt.pid) present = true;
                        }
                        // completed on an earlier connection already?
                        bool later_needed = false;
                        for (int ri : rs) if (s.broker.recv[ri].conn >= (int)ci) later_needed = true;
                        if (type == PUBLISH) for (int ri : recv_by_conn[ci]) if (s.broker.recv[ri].pkt.type == PUBREL && s.broker.recv[ri].pkt.pid == s.broker.recv[rs.front()].pkt.pid && s.broker.recv[ri].seq < d->seq) later_needed = true;
                        if (sent_any && !present && later_needed == false) {
                            // the op completed after this connection came up, yet nothing of it was sent here: only a
                            // violation if its acknowledgement had not been delivered before this connection started
                            bool acked_before = false;
                            for (auto& sp : s.broker.sent)
                                if (sp.reply_to >= 0 && std::find(rs.begin(), rs.end(), sp.reply_to) != rs.end() && sp.delivered_seq && sp.delivered_seq < nc.seq_established &&
                                    (sp.pkt.type == PUBACK || sp.pkt.type == PUBCOMP || sp.pkt.type == SUBACK || sp.pkt.type == UNSUBACK)) acked_before = true;
                            // bytes the client handed to the transport on this connection which never reached the broker
                            // (short write, then the connection was replaced) cannot be inspected: no verdict
                            size_t got = 0; for (int ri : recv_by_conn[ci]) got = std::max(got, s.broker.recv[ri].off_end);
                            bool unseen = false;
                            for (auto& g2 : s.net.groups) if (g2.conn == (int)ci && g2.seq_start < d->seq && g2.off_end > got) unseen = true;
                            if (!acked_before && !unseen)
                                fail("C02", "not_retransmitted_on_next_connection", opstr(o) + " had no delivered acknowledgement, connection " + std::to_string(ci) +
                                     " (after heal) carried client traffic but not this packet");
                        }
                    }
                }
            };
            check_resend(pub_receipts, PUBLISH); check_resend(sub_receipts, SUBSCRIBE); check_resend(unsub_receipts, UNSUBSCRIBE);
        }
    }

    // ------------------------------------------------------------------ C01
bool Ctx::pub_matches(const OpRec& o, const Packet& p) const {
        return p.topic == o.topic && p.payload == o.payload && p.qos == o.qos && p.retain == o.retain && props_equal(p.props, o.props);
    }

void Ctx::c01() {
        for (auto& o : s.ops) {
            if (o.kind != OpKind::publish || o.qos == 0) continue;
            const Done* d = done(o);
            if (!d || d->c.ec) continue;
            if (hostile_run && any_hostile_between(o.init_seq, d->seq)) continue;    // judged by C19
            auto it = pub_receipts.find(o.id);
            std::string why = "no PUBLISH with this topic was ever received by the broker";
            bool ok = false;
            if (relaxed_witness() && it == pub_receipts.end()) continue;   // identifier and write time unknown: cannot be judged under repeated acknowledgements
            if (relaxed_witness() && it != pub_receipts.end()) {
                // The broker repeats acknowledgements in this run: an acknowledgement of an earlier exchange with the same
                // identifier that reaches the client after this PUBLISH was handed to the transport cannot be told apart
                // from the real one by any client. Witness: a final acknowledgement for the identifier on a connection that
                // carried the PUBLISH, consumed by the client after the PUBLISH write began and before the handler ran.
                why = "";
                for (int ri : it->second) {
                    auto& r = s.broker.recv[ri];
                    if (!pub_matches(o, r.pkt)) { why = "received PUBLISH differs from the arguments: " + packet_str(r.pkt); continue; }
                    uint64_t wstart = r.first_group ? s.net.groups[r.first_group - 1].seq_start : r.seq;
                    for (auto& sp : s.broker.sent) {
                        if (sp.conn != r.conn || sp.hostile || sp.pkt.pid != r.pkt.pid) continue;
                        if (!sp.delivered_seq || sp.delivered_seq > d->seq) continue;
                        // not a witness: an acknowledgement read while this request was already queued but not yet handed to the
                        // transport (a correct client discards those when it starts the write). One read before the request
                        // existed may have been parsed after it was initiated (several packets per read), so it is accepted.
                        if (sp.delivered_seq > o.init_seq && processed_by(sp.conn, sp.delivered_seq) < wstart) continue;
                        bool final_ack = (o.qos == 1 && sp.pkt.type == PUBACK) || (o.qos == 2 && (sp.pkt.type == PUBCOMP || (sp.pkt.type == PUBREC && sp.pkt.rc >= 0x80)));
                        if (!final_ack) continue;
                        bool props_ok = sp.pkt.type == PUBREC || props_equal(sp.pkt.props, d->c.props);
                        if (sp.pkt.rc == d->c.rc && props_ok) ok = true;
                        else if (why.empty()) why = std::string(ptype_name(sp.pkt.type)) + " rc/props " + std::to_string(sp.pkt.rc) + props_str(sp.pkt.props) + " != handler " + std::to_string(d->c.rc) + props_str(d->c.props);
                    }
                }
                // a QoS 2 exchange may also finish on a later connection than the one that carried the PUBLISH
                if (!ok && o.qos == 2) {
                    std::set<uint16_t> pids; for (int ri : it->second) pids.insert(s.broker.recv[ri].pkt.pid);
                    uint64_t first_w = s.broker.recv[it->second.front()].seq;
                    for (auto& sp : s.broker.sent)
                        if (!sp.hostile && sp.pkt.type == PUBCOMP && pids.count(sp.pkt.pid) && sp.delivered_seq && sp.delivered_seq < d->seq && sp.delivered_seq > first_w &&
                            sp.pkt.rc == d->c.rc && props_equal(sp.pkt.props, d->c.props)) ok = true;
                }
                if (!ok && why.empty()) why = "no acknowledgement for its packet identifier reached the client between the PUBLISH write and the handler";
            } else if (it != pub_receipts.end()) {
                why = "";
                for (int ri : it->second) {
                    auto& r = s.broker.recv[ri];
                    if (r.seq > d->seq) break;
                    if (!pub_matches(o, r.pkt)) { if (why.empty()) why = "received PUBLISH differs from the arguments: " + packet_str(r.pkt); continue; }
                    for (auto& sp : s.broker.sent) {
                        if (sp.conn != r.conn || sp.hostile || sp.pkt.pid != r.pkt.pid || sp.seq < r.seq) continue;
                        if (!sp.delivered_seq || sp.delivered_seq > d->seq) continue;
                        if (o.qos == 1 && sp.pkt.type == PUBACK) {
                            if (sp.pkt.rc == d->c.rc && props_equal(sp.pkt.props, d->c.props)) ok = true;
                            else why = "PUBACK rc/props " + std::to_string(sp.pkt.rc) + props_str(sp.pkt.props) + " != handler " + std::to_string(d->c.rc) + props_str(d->c.props);
                        }
                        if (o.qos == 2 && sp.pkt.type == PUBREC && sp.pkt.rc >= 0x80) {
                            if (sp.pkt.rc == d->c.rc) ok = true;
                            else why = "failing PUBREC rc " + std::to_string(sp.pkt.rc) + " != handler rc " + std::to_string(d->c.rc);
                        }
                        if (o.qos == 2 && sp.pkt.type == PUBREC && sp.pkt.rc < 0x80) {
                            // PUBREL with that id received afterwards (same or later connection), PUBCOMP on the PUBREL's connection
                            for (auto& r2 : s.broker.recv) {
                                if (r2.seq < sp.delivered_seq || r2.seq > d->seq || !r2.decode_err.empty()) continue;
                                if (r2.pkt.type != PUBREL || r2.pkt.pid != r.pkt.pid) continue;
                                for (auto& sc : s.broker.sent) {
                                    if (sc.conn != r2.conn || sc.hostile || sc.pkt.type != PUBCOMP || sc.pkt.pid != r.pkt.pid || sc.seq < r2.seq) continue;
                                    if (!sc.delivered_seq || sc.delivered_seq > d->seq) continue;
                                    if (sc.pkt.rc == d->c.rc && props_equal(sc.pkt.props, d->c.props)) ok = true;
                                    else why = "PUBCOMP rc/props " + std::to_string(sc.pkt.rc) + props_str(sc.pkt.props) + " != handler " + std::to_string(d->c.rc) + props_str(d->c.props);
                                }
                            }
                        }
                        if (ok) break;
                    }
                    if (ok) break;
                }
                if (!ok && why.empty()) why = "no acknowledgement for its packet identifier was delivered before the handler ran";
            }
            if (!ok) fail("C01", o.qos == 1 ? "qos1_success_without_witness" : "qos2_success_without_witness",
                          opstr(o) + " completed successfully (rc " + std::to_string(d->c.rc) + ") at seq " + std::to_string(d->seq) + " but " + why);
        }
    }

    // ------------------------------------------------------------------ C14
void Ctx::c14() {
        for (auto& o : s.ops) {
            if (o.kind != OpKind::subscribe && o.kind != OpKind::unsubscribe) continue;
            const Done* d = done(o);
            if (!d) continue;
            bool sub = o.kind == OpKind::subscribe;
            size_t ntopics = sub ? o.subs.size() : o.topics.size();
            if (d->c.rcs.size() != ntopics)
                fail("C14", "rc_count_differs", opstr(o) + " handler got " + std::to_string(d->c.rcs.size()) + " reason codes for " + std::to_string(ntopics) + " topics");
            if (d->c.ec) continue;
            if (hostile_run && any_hostile_between(o.init_seq, d->seq)) continue;
            auto& m = sub ? sub_receipts : unsub_receipts;
            auto it = m.find(o.id);
            bool ok = false; std::string why = "the broker never received the request";
            if (relaxed_witness() && it == m.end()) continue;   // identifier and write time unknown: cannot be judged under repeated acknowledgements (as in C01)
            if (it != m.end()) {
                why = "";
                for (int ri : it->second) {
                    auto& r = s.broker.recv[ri];
                    if (r.seq > d->seq && !relaxed_witness()) break;
                    bool same = sub ? (r.pkt.subs == o.subs) : (r.pkt.unsubs == o.topics);
                    if (!same || !props_equal(r.pkt.props, o.props)) { why = "received request differs from the arguments: " + packet_str(r.pkt); continue; }
                    uint64_t wstart = r.first_group ? s.net.groups[r.first_group - 1].seq_start : r.seq;
                    for (auto& sp : s.broker.sent) {
                        if (sp.conn != r.conn || sp.hostile || sp.pkt.pid != r.pkt.pid) continue;
                        if (relaxed_witness() ? (sp.delivered_seq > o.init_seq && processed_by(sp.conn, sp.delivered_seq) < wstart) : (sp.seq < r.seq)) continue;
                        if (sp.pkt.type != (sub ? SUBACK : UNSUBACK)) continue;
                        if (!sp.delivered_seq || sp.delivered_seq > d->seq) continue;
                        if (sp.pkt.rcs == d->c.rcs && props_equal(sp.pkt.props, d->c.props)) ok = true;
                        else why = "acknowledgement " + packet_str(sp.pkt) + " differs from what the handler got";
                    }
                    if (ok) break;
                }
                if (!ok && why.empty()) why = "no acknowledgement for its packet identifier was delivered before the handler ran";
            }
            if (!ok) fail("C14", sub ? "subscribe_success_without_witness" : "unsubscribe_success_without_witness",
                          opstr(o) + " completed successfully at seq " + std::to_string(d->seq) + " but " + why);
        }
    }

    // ------------------------------------------------------------------ C03
void Ctx::c03() {
        for (auto& [opid, rs] : pub_receipts) {
            auto& o = s.ops[opid];
            if (o.qos == 0 || rs.empty()) continue;
            const Done* d = done(o);
            uint64_t end_seq = d ? d->seq : UINT64_MAX;
            auto& first = s.broker.recv[rs.front()];
            uint16_t pid = first.pkt.pid;
            // (1) QoS 2: no PUBLISH after the first PUBREL of this exchange
            if (o.qos == 2) {
                uint64_t first_rel = 0;
                for (auto& r : s.broker.recv)
                    if (r.decode_err.empty() && r.pkt.type == PUBREL && r.pkt.pid == pid && r.seq > first.seq && r.seq < end_seq) { first_rel = r.seq; break; }
                if (first_rel)
                    for (int ri : rs) if (s.broker.recv[ri].seq > first_rel && s.broker.recv[ri].seq < end_seq)
                        fail("C03", "publish_after_pubrel", opstr(o) + " PUBLISH (pid " + std::to_string(pid) + ") transmitted again at seq " +
                             std::to_string(s.broker.recv[ri].seq) + " after its PUBREL at seq " + std::to_string(first_rel));
            }
            // (2) byte-identical except DUP
            for (int ri : rs) {
                std::string a = first.pkt.raw, b = s.broker.recv[ri].pkt.raw;
                if (!a.empty() && !b.empty()) { a[0] &= ~0x08; b[0] &= ~0x08; }
                if (a != b) fail("C03", "retransmission_differs", opstr(o) + " retransmission differs from the first transmission beyond the DUP bit: " +
                                 hex(first.pkt.raw, 40) + " vs " + hex(s.broker.recv[ri].pkt.raw, 40));
            }
            // (3) first transmission DUP=0 (if nothing could have been sent earlier)
            if (first.pkt.dup) {
                bool earlier_conn_possible = false;
                for (int ci = 0; ci < first.conn; ++ci) {
                    auto& nc = *s.net.conns[ci];
                    if (nc.st == sim::Conn::failed) continue;
                    if (nc.seq_end == 0 || nc.seq_end > o.init_seq) earlier_conn_possible = true;
                }
                // bytes lost in flight on the same connection never happen (TCP), so DUP on the first receipt needs an earlier connection
                if (!earlier_conn_possible)
                    fail("C03", "first_transmission_dup", opstr(o) + " first transmission carries DUP=1 (conn " + std::to_string(first.conn) + ")");
            }
            // (1b) QoS 2: no PUBLISH after a successful PUBREC was processed. The client read the PUBREC (a later
            // read on that connection proves the receive buffer had been parsed up to it: assemble_op only reads
            // when no complete packet is buffered), the write that carried the PUBLISH was reported successful
            // and the sender went on to its next write on that connection (so its completion handler ran and the
            // operation registered for - or picked up - the PUBREC). From then on only PUBREL may be (re)sent.
            if (o.qos == 2 && !o.caller_cancelled) {
                for (auto& sp : s.broker.sent) {
                    if (sp.hostile || sp.pkt.type != PUBREC || sp.pkt.pid != pid || sp.pkt.rc >= 0x80 || !sp.delivered_seq) continue;
                    if (sp.reply_to < 0 || std::find(rs.begin(), rs.end(), sp.reply_to) == rs.end()) continue;
                    auto& e = s.broker.recv[sp.reply_to];
                    if (!e.group || e.group != e.first_group) continue;
                    auto& g = s.net.groups[e.group - 1];
                    if (!g.done || g.result) continue;
                    uint64_t t_read = 0, t_write = 0;
                    for (auto& rr : s.net.reads) if (rr.conn == sp.conn && rr.seq_start > sp.delivered_seq) { t_read = rr.seq_start; break; }
                    for (auto& g2 : s.net.groups) if (g2.conn == sp.conn && g2.seq_start > g.seq_done) { t_write = g2.seq_start; break; }
                    if (!t_read || !t_write) continue;
                    uint64_t T = std::max(t_read, t_write);
                    if (multi_gen_active(o.init_seq, T)) continue;
                    for (int ri : rs) if (s.broker.recv[ri].seq > T && s.broker.recv[ri].conn != sp.conn && s.broker.recv[ri].seq < end_seq)
                        fail("C03", "publish_after_pubrec_processed", opstr(o) + " PUBLISH (pid " + std::to_string(pid) + ") transmitted again at seq " +
                             std::to_string(s.broker.recv[ri].seq) + " (conn " + std::to_string(s.broker.recv[ri].conn) + ") although its successful PUBREC had been read on conn " +
                             std::to_string(sp.conn) + " (seq " + std::to_string(sp.delivered_seq) + ") and the write of the PUBLISH was reported successful (seq " + std::to_string(g.seq_done) + ")");
                }
            }
            // (4) DUP=1 when an earlier transmission was reported as written successfully
            for (size_t k = 1; k < rs.size(); ++k) {
                auto& r = s.broker.recv[rs[k]];
                if (r.pkt.dup) continue;
                for (size_t j = 0; j < k; ++j) {
                    auto& e = s.broker.recv[rs[j]];
                    if (!e.group || e.group != e.first_group) continue;
                    auto& g = s.net.groups[e.group - 1];
                    if (g.done && !g.result && g.seq_done < r.seq)
                        fail("C03", "dup_missing", opstr(o) + " retransmitted at seq " + std::to_string(r.seq) + " with DUP=0 although the write carrying an earlier transmission (seq " +
                             std::to_string(e.seq) + ") was reported successful");
                }
            }
        }
    }

    // ------------------------------------------------------------------ C06
void Ctx::c06() {
        for (size_t ci = 0; ci < recv_by_conn.size(); ++ci) {
            auto* bc = s.broker.bc((int)ci);
            if (!bc || bc->connack_sent_idx < 0) continue;
            bool all = !bc->caps.recv_max.has_value();
            int last = -1; uint64_t last_seq = 0;
            for (int ri : recv_by_conn[ci]) {
                auto& r = s.broker.recv[ri];
                if (!r.decode_err.empty() || r.pkt.type != PUBLISH) continue;
                if (!all && r.pkt.qos == 0) continue;
                int op = op_of_topic(r.pkt.topic);
                if (op < 0) continue;
                if (s.ops[op].caller_cancelled) continue;
                if (op < last)
                    fail("C06", all ? "order_any_qos" : "order_qos_gt0", "connection " + std::to_string(ci) + ": PUBLISH of " + opstr(s.ops[op]) + " (seq " + std::to_string(r.seq) +
                         ") arrived after PUBLISH of later-initiated " + opstr(s.ops[last]) + " (seq " + std::to_string(last_seq) + ")");
                if (op > last) { last = op; last_seq = r.seq; }
            }
        }
    }

    // ------------------------------------------------------------------ C07 / online broker observations
void Ctx::online() {
        for (auto& v : s.broker.violations_online) {
            auto p1 = v.find('|');
            if (p1 == std::string::npos) { fail("C17", "framing", v); continue; }
            auto p2 = v.find('|', p1 + 1);
            std::string prop = v.substr(0, p1), orc = v.substr(p1 + 1, p2 - p1 - 1), det = v.substr(p2 + 1);
            if (hostile_run && prop == "C04") continue;
            if (relaxed_witness() && prop == "C07") continue;    // a repeated acknowledgement releases a re-used identifier early in the client: not the client's fault
            fail(prop.c_str(), orc.c_str(), det);
        }
    }

    // ------------------------------------------------------------------ C07, progress half
    // "Throttled messages are sent as soon as quota is available again." In virtual time a correct client reacts to a
    // freed slot at once; the only things that may hold a waiting PUBLISH back are the limit itself, a write that the
    // transport has not completed yet, a stalled process, or the connection going away. A QoS>0 publish that was
    // initiated on an established connection with an announced Receive Maximum and is handed to the transport only after
    // a quiet period of 3 s in which none of these applied was waiting for some unrelated trigger (the next PINGREQ, the
    // next request) to be sent at all.
void Ctx::c07() {
        if (relaxed_witness() || hostile_run) return;
        auto& B = s.broker;
        constexpr ns_t QUIET = 3 * SEC;
        for (auto& [opid, rs] : pub_receipts) {
            auto& o = s.ops[opid];
            if (o.qos == 0 || rs.empty() || o.caller_cancelled) continue;
            auto& r0 = B.recv[rs.front()];
            int ci = r0.conn;
            auto* bc = B.bc(ci);
            if (!bc || bc->connack_sent_idx < 0 || !bc->caps.recv_max || !r0.first_group) continue;
            auto& nc = *s.net.conns[ci];
            if (nc.transport_fault || bc->hostile_touched || nc.blackhole) continue;
            auto& ca = B.sent[bc->connack_sent_idx];
            if (!ca.delivered_seq) continue;
            ns_t t_ca = -1;
            for (auto& l : s.logs) if (l.k == LogRec::connack && l.rc == 0 && l.seq >= ca.delivered_seq) { t_ca = l.t; break; }
            if (t_ca < 0 || o.init_t < t_ca) continue;              // queued before this connection was up: part of a resend
            ns_t tw = o.init_t, tr = s.net.groups[r0.first_group - 1].t_start;
            if (tr - tw < QUIET) continue;
            if (multi_gen_active(o.init_seq, r0.seq) || boundary_between(o.init_seq, r0.seq)) continue;
            int R = *bc->caps.recv_max;
            // busy intervals inside [tw, tr]
            std::vector<std::pair<ns_t, ns_t>> busy;
            {   // limit reached, as the broker sees it (acknowledgements count from their delivery to the client)
                std::vector<std::pair<ns_t, int>> ev;
                std::set<uint16_t> counted;
                for (int ri : recv_by_conn[ci]) {
                    auto& r = B.recv[ri];
                    if (!r.decode_err.empty()) continue;
                    // an exchange resumed from an earlier connection by its PUBREL is still incomplete: it holds a slot as well
                    bool resumed_rel = r.pkt.type == PUBREL && !counted.count(r.pkt.pid);
                    if (!(r.pkt.type == PUBLISH && r.pkt.qos > 0) && !resumed_rel) continue;
                    if (r.pkt.type == PUBLISH) counted.insert(r.pkt.pid);
                    ev.push_back({r.first_group ? s.net.groups[r.first_group - 1].t_start : r.t, +1});   // the slot is taken when the client hands the packet over
                    ns_t end = -1;
                    for (int si : bc->sent) { auto& sp = B.sent[si];
                        if (sp.pkt.pid != r.pkt.pid || sp.seq < r.seq || !sp.delivered_seq) continue;
                        if (sp.pkt.type == PUBACK || sp.pkt.type == PUBCOMP || (sp.pkt.type == PUBREC && sp.pkt.rc >= 0x80)) { end = sp.delivered_t; break; } }
                    if (end >= 0) ev.push_back({end, -1});
                }
                std::sort(ev.begin(), ev.end());
                int n = 0; ns_t from = -1;
                for (auto& e : ev) { n += e.second; if (n >= R && from < 0) from = e.first; if (n < R && from >= 0) { busy.push_back({from, e.first}); from = -1; } }
                if (from >= 0) busy.push_back({from, tr});
            }
            for (auto& g : s.net.groups) if (g.conn == ci && g.t_start < tr) busy.push_back({g.t_start, g.done ? g.t_done : tr});   // a write the transport has not completed
            for (auto& m : s.marks) if (m.kind == MarkKind::stall) busy.push_back({m.t - (ns_t)m.arg, m.t});   // the mark is taken when the stall ends
            std::sort(busy.begin(), busy.end());
            ns_t cur = tw; bool quiet = false; ns_t qfrom = 0;
            for (auto& b : busy) {
                if (b.second <= cur) continue;
                if (b.first > cur && std::min(b.first, tr) - cur >= QUIET) { quiet = true; qfrom = cur; break; }
                cur = std::max(cur, b.second);
                if (cur >= tr) break;
            }
            if (!quiet && cur < tr && tr - cur >= QUIET) { quiet = true; qfrom = cur; }
            if (quiet)
                fail("C07", "throttled_publish_delayed", opstr(o) + " (initiated at t=" + std::to_string(tw / 1000000) + " ms on connection " + std::to_string(ci) + ", Receive Maximum " + std::to_string(R) +
                     ") was handed to the transport only at t=" + std::to_string(tr / 1000000) + " ms although from t=" + std::to_string(qfrom / 1000000) +
                     " ms on quota was available, no write was outstanding and nothing stalled for 3 s");
        }
    }

    // ------------------------------------------------------------------ C08
void Ctx::c08() {
        struct Hold { int op; uint64_t from; };
        std::map<uint16_t, std::vector<Hold>> holders;
        auto opdone = [&](int op) -> uint64_t { auto& o = s.ops[op]; return o.dones.empty() ? UINT64_MAX : o.dones[0].seq; };
        for (auto& r : s.broker.recv) {
            if (!r.decode_err.empty()) continue;
            int op = -1;
            if (r.pkt.type == PUBLISH && r.pkt.qos > 0) op = op_of_topic(r.pkt.topic);
            else if (r.pkt.type == SUBSCRIBE && !r.pkt.subs.empty()) op = op_of_filter(r.pkt.subs[0].filter, sub_op_by_step);
            else if (r.pkt.type == UNSUBSCRIBE && !r.pkt.unsubs.empty()) op = op_of_unsub(r.pkt.unsubs[0]);
            else continue;
            if (op < 0) continue;
            if (r.pkt.pid == 0) fail("C08", "pid_zero", opstr(s.ops[op]) + " sent with packet identifier 0");
            auto& hs = holders[r.pkt.pid];
            for (auto& h : hs) {
                if (h.op == op) continue;
                if (s.ops[h.op].svc_gen != s.ops[op].svc_gen) continue;   // cancel() starts a fresh service with its own identifiers
                if (opdone(h.op) > r.seq && s.ops[h.op].init_seq < r.seq)
                    fail("C08", "pid_shared", "packet identifier " + std::to_string(r.pkt.pid) + " used by " + opstr(s.ops[op]) + " at seq " + std::to_string(r.seq) +
                         " while " + opstr(s.ops[h.op]) + " (not yet completed) holds it since seq " + std::to_string(h.from));
            }
            bool have = false; for (auto& h : hs) if (h.op == op) have = true;
            if (!have) hs.push_back({op, r.seq});
        }
        // pid_overrun only when all 65535 identifiers are in use
        {
            // per service generation: +1 at initiation of an identifier-holding operation, -1 at its completion
            std::map<std::pair<int, int>, std::vector<std::pair<uint64_t, int>>> ev;
            for (auto& p : s.ops) {
                bool holds = (p.kind == OpKind::publish && p.qos > 0) || p.kind == OpKind::subscribe || p.kind == OpKind::unsubscribe;
                if (!holds) continue;
                auto& v = ev[{p.client_gen, p.svc_gen}];
                v.push_back({p.init_seq, +1});
                if (!p.dones.empty()) v.push_back({p.dones[0].seq, -1});
            }
            for (auto& [k, v] : ev) std::sort(v.begin(), v.end());
            for (auto& o : s.ops) {
                const Done* d = done(o);
                if (!d || d->c.ec.value() != 103 || std::string(d->c.ec.category().name()) != "mqtt_client_error") continue;
                auto& v = ev[{o.client_gen, o.svc_gen}];
                long outstanding = 0;
                for (auto& e : v) { if (e.first >= o.init_seq) break; outstanding += e.second; }
                // operations that were themselves refused never held an identifier; they complete after their initiation
                if (outstanding < 65535) {
                    // count precisely: refused operations (pid_overrun) initiated earlier and not yet completed do not hold identifiers
                    long refused_pending = 0;
                    for (auto& p : s.ops) {
                        if (p.client_gen != o.client_gen || p.svc_gen != o.svc_gen || p.init_seq >= o.init_seq || p.dones.empty()) continue;
                        if (p.dones[0].seq > o.init_seq && p.dones[0].c.ec.value() == 103) ++refused_pending;
                    }
                    (void)refused_pending;
                    fail("C08", "pid_overrun_early", opstr(o) + " completed with pid_overrun while only " + std::to_string(outstanding) + " exchanges were outstanding");
                }
            }
        }
    }

    // ------------------------------------------------------------------ C17 (wire well-formedness + says what was asked)
void Ctx::c17() {
        for (auto& r : s.broker.recv) {
            if (!r.decode_err.empty()) {
                fail("C17", "malformed_packet_emitted", "conn " + std::to_string(r.conn) + " seq " + std::to_string(r.seq) + ": " + r.decode_err + " raw " + hex(r.pkt.raw, 64));
                continue;
            }
            const Packet& p = r.pkt;
            if (p.type == PUBLISH) {
                int op = op_of_topic(p.topic);
                if (op >= 0 && !pub_matches(s.ops[op], p))
                    fail("C17", "publish_fields_differ", opstr(s.ops[op]) + " emitted as " + packet_str(p) + " but asked topic/payload/qos/retain/props " +
                         s.ops[op].topic + " q" + std::to_string(s.ops[op].qos) + " " + props_str(s.ops[op].props));
                if (op < 0 && p.topic.rfind("t/", 0) == 0) fail("C17", "unknown_publish", "PUBLISH with unknown tag " + p.topic);
            } else if (p.type == SUBSCRIBE) {
                int op = p.subs.empty() ? -1 : op_of_filter(p.subs[0].filter, sub_op_by_step);
                if (op >= 0 && (!(p.subs == s.ops[op].subs) || !props_equal(p.props, s.ops[op].props)))
                    fail("C17", "subscribe_fields_differ", opstr(s.ops[op]) + " emitted as " + packet_str(p));
            } else if (p.type == UNSUBSCRIBE) {
                int op = p.unsubs.empty() ? -1 : op_of_unsub(p.unsubs[0]);
                if (op >= 0 && (!(p.unsubs == s.ops[op].topics) || !props_equal(p.props, s.ops[op].props)))
                    fail("C17", "unsubscribe_fields_differ", opstr(s.ops[op]) + " emitted as " + packet_str(p));
            }
        }
    }


std::vector<Violation> check_all(Sim& s, const std::string& only) {
    Ctx c(s, only);
    // protocol oracles assume a legitimate broker; in hostile runs only the oracles that stay meaningful are evaluated
    if (s.plan.knobs.focus.rfind("C20x:", 0) == 0) { c.c20x(); c.c05(); return c.out; }
    if (s.plan.knobs.focus == "C11x") { c.c11x(); return c.out; }
    if (s.plan.knobs.focus == "C08x") {
        // identifier exhaustion / leak scenarios: tens of thousands of operations; only the oracles that scale are run
        c.c05(); c.c08(); c.c17();
        bool leak_mode = false;
        for (auto& st : s.plan.steps) if (st.kind == SK::PublishBurst && st.c) leak_mode = true;
        if (leak_mode) {
            // C15: a rejected request consumes no packet identifier - after 70000 rejections a valid request is still accepted
            size_t rejected = 0;
            for (auto& o : s.ops) {
                if (o.dones.empty()) continue;
                auto& ec = o.dones[0].c.ec;
                bool client_cat = std::string(ec.category().name()) == "mqtt_client_error";
                if (client_cat && ec.value() == 101) ++rejected;
                if (client_cat && ec.value() == 103)
                    c.fail("C15", "rejected_request_consumed_identifier", c.opstr(o) + " was refused with pid_overrun after " + std::to_string(rejected) + " locally rejected requests: rejections leak packet identifiers");
            }
        }
        return c.out;
    }
    bool hostile = s.plan.knobs.profile == "hostile";
    if (!hostile) c.online();
    c.c05(); c.c02(); c.c01(); c.c14(); c.c17();
    if (!hostile) { c.c03(); c.c06(); c.c07(); c.c08(); c.c04(); c.c10(); c.c11(); c.c12(); c.c13(); c.c09(); c.c15(); c.c18(); }
    c.c19();
    if (s.livelock) c.fail("C19", "livelock", "more than 200000 handler steps at one virtual instant");
    return c.out;
}

std::map<std::string, uint64_t> run_features(Sim& s) {
    std::map<std::string, uint64_t> f;
    size_t est = 0; for (auto& c : s.net.conns) if (c->st != sim::Conn::failed && c->seq_established) ++est;
    f["conns_established"] = est;
    f["reconnects"] = est > 1 ? est - 1 : 0;
    size_t done_ok = 0, done_abort = 0;
    for (auto& o : s.ops) for (auto& d : o.dones) { if (!d.c.ec) ++done_ok; else if (d.c.ec == asio::error::operation_aborted) ++done_abort; }
    f["ops_success"] = done_ok; f["ops_aborted"] = done_abort;
    size_t dup = 0, q2 = 0;
    for (auto& r : s.broker.recv) { if (r.pkt.type == PUBLISH && r.pkt.dup) ++dup; if (r.pkt.type == PUBREL) ++q2; }
    f["dup_publishes"] = dup; f["pubrels"] = q2;
    size_t maxinf = 0; bool hit_limit = false;
    for (auto& c : s.broker.conns) if (c) { maxinf = std::max(maxinf, c->max_inflight); if (c->caps.recv_max && c->max_inflight >= *c->caps.recv_max) hit_limit = true; }
    f["max_inflight"] = maxinf; f["recv_max_reached"] = hit_limit;
    f["pkts_from_client"] = s.broker.recv.size(); f["pkts_to_client"] = s.broker.sent.size();
    size_t q12 = 0, recv_ok = 0, cap_rej = 0;
    for (auto& o : s.ops) for (auto& d : o.dones) {
        if (o.kind == OpKind::publish && o.qos > 0 && !d.c.ec) ++q12;
        if (o.kind == OpKind::receive && !d.c.ec) ++recv_ok;
        if (std::string(d.c.ec.category().name()) == "mqtt_client_error" && (d.c.ec.value() == 101 || (d.c.ec.value() >= 105 && d.c.ec.value() <= 110))) ++cap_rej;
    }
    f["pub_q12_success"] = q12; f["msgs_received_by_app"] = recv_ok; f["cap_rejections"] = cap_rej;
    size_t pidp = 0, pings = 0, max_ops_conn = 0, with_props = 0, hostile_deliv = 0, subacks = 0;
    std::map<int, std::set<std::string>> topics_per_conn;
    for (auto& r : s.broker.recv) {
        if (!r.decode_err.empty()) continue;
        if ((r.pkt.type == PUBLISH && r.pkt.qos > 0) || r.pkt.type == SUBSCRIBE || r.pkt.type == UNSUBSCRIBE) ++pidp;
        if (r.pkt.type == PINGREQ) ++pings;
        if (r.pkt.type == PUBLISH) topics_per_conn[r.conn].insert(r.pkt.topic);
    }
    for (auto& [c, t] : topics_per_conn) max_ops_conn = std::max(max_ops_conn, t.size());
    for (auto& sp : s.broker.sent) {
        if (!sp.delivered_seq) continue;
        if (!sp.pkt.props.empty()) ++with_props;
        if (sp.hostile) ++hostile_deliv;
        if (sp.pkt.type == SUBACK || sp.pkt.type == UNSUBACK) ++subacks;
    }
    f["pid_packets"] = pidp; f["pingreqs"] = pings; f["max_pub_ops_on_conn"] = max_ops_conn;
    f["pkts_to_client_with_props"] = with_props; f["hostile_delivered"] = hostile_deliv; f["subacks_delivered"] = subacks;
    // reach probe: acknowledgements that reached the client before the write carrying their request was reported done
    size_t early = 0;
    for (auto& sp : s.broker.sent) {
        if (!sp.delivered_seq || sp.reply_to < 0 || sp.reply_to >= (int)s.broker.recv.size()) continue;
        auto& e = s.broker.recv[sp.reply_to];
        if (!e.group) continue;
        auto& g = s.net.groups[e.group - 1];
        if (!g.done || g.seq_done > sp.delivered_seq) ++early;
    }
    f["acks_before_write_done"] = early;
    // reach probe: a repeated acknowledgement reached the client while a new request re-using its identifier was
    // initiated but not yet handed to the transport (the window in which a correct client must discard it)
    size_t stale = 0;
    {
        std::map<std::string, int> by_topic;
        for (auto& o : s.ops) if (o.kind == OpKind::publish && o.qos > 0) by_topic[o.topic] = o.id;
        for (auto& r : s.broker.recv) {
            if (!r.decode_err.empty() || r.pkt.type != PUBLISH || r.pkt.qos == 0 || !r.first_group) continue;
            auto it = by_topic.find(r.pkt.topic); if (it == by_topic.end()) continue;
            auto& o = s.ops[it->second];
            uint64_t wstart = s.net.groups[r.first_group - 1].seq_start;
            for (auto& sp : s.broker.sent) if (sp.dup_ack && sp.conn == r.conn && sp.pkt.pid == r.pkt.pid && sp.delivered_seq > o.init_seq && sp.delivered_seq < wstart) ++stale;
        }
    }
    f["stale_ack_in_queue_window"] = stale;
    size_t ka = 0; for (auto& r : s.net.reads) if (r.end == sim::ReadRec::slot_cancel) ++ka;
    f["ka_judged"] = ka;
    // a reconnect that ended with Session Present 0 after a successful subscribe
    size_t lost_with_subs = 0; bool subs = false;
    {
        std::vector<std::pair<uint64_t, int>> ev;   // (seq, kind): 1 = subscribe success, 2 = connack sp=0
        for (auto& o : s.ops) if (o.kind == OpKind::subscribe && !o.dones.empty() && !o.dones[0].c.ec) for (auto rc : o.dones[0].c.rcs) if (rc < 0x80) { ev.push_back({o.dones[0].seq, 1}); break; }
        for (auto& l : s.logs) if (l.k == LogRec::connack && l.rc == 0 && !l.session_present) ev.push_back({l.seq, 2});
        std::sort(ev.begin(), ev.end());
        for (auto& e : ev) { if (e.second == 1) subs = true; else if (subs) { ++lost_with_subs; subs = false; } }
    }
    f["session_lost_with_subs"] = lost_with_subs;
    size_t lim = 0;
    for (auto& c : s.broker.conns) if (c && c->connack_sent_idx >= 0) { auto& k = c->caps; if (k.max_qos || k.retain_avail || k.max_packet || k.topic_alias_max || k.wildcard || k.subid || k.shared) ++lim; }
    f["limiting_caps"] = lim;
    return f;
}

} // namespace app
