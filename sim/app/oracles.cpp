#include "run.hpp"
namespace app {
std::vector<Violation> check_all(Sim& s, const std::string& only) { (void)s; (void)only; return {}; }
std::map<std::string, uint64_t> run_features(Sim& s) { (void)s; return {}; }
}
