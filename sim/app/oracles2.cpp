// Oracles part 2: C04 (inbound delivery), C10 (CONNECT / gating / rotation / timing),
// C12 (keep-alive, exact virtual time), C13 (session expiry reports).
#include "oracle_ctx.hpp"

namespace app {

namespace {
int msg_of_payload(const std::string& p) {
    if (p.size() < 2 || p[0] != 'm') return -1;
    auto c = p.find(':');
    if (c == std::string::npos) return -1;
    return atoi(p.c_str() + 1);
}
}


namespace {
// conditions that single out the known inbound-QoS defects (known_findings.json): the exchange of a message spanned a
// connection loss, or an acknowledgement of the client for it travelled in a write that was reported as failed
struct MsgHistory { bool multi_conn = false; bool ack_write_error = false; bool publish_retransmitted = false; };
MsgHistory history_of(Sim& s, const bk::OutMsg& m) {
    MsgHistory h;
    std::set<int> conns;
    for (int si : m.publish_idx) if (s.broker.sent[si].seq) conns.insert(s.broker.sent[si].conn);
    for (int si : m.pubrel_idx) if (s.broker.sent[si].seq) conns.insert(s.broker.sent[si].conn);
    h.multi_conn = conns.size() >= 2;
    h.publish_retransmitted = m.sends >= 2;
    for (auto& r : s.broker.recv) {
        if (!r.decode_err.empty() || r.pkt.pid != m.pid || m.pid == 0) continue;
        if (r.pkt.type != PUBACK && r.pkt.type != PUBREC && r.pkt.type != PUBCOMP) continue;
        if (r.seq < m.first_send_seq) continue;
        if (!conns.count(r.conn)) continue;
        if (r.group) { auto& g = s.net.groups[r.group - 1]; if (!g.done || g.result) h.ack_write_error = true; }
    }
    // a connection that carried part of the exchange died by a fault
    for (int c : conns) { auto* nc = s.net.conn(c); if (nc && (nc->transport_fault || nc->dead)) h.multi_conn = h.multi_conn || conns.size() >= 1 && nc->transport_fault; }
    // K8: acknowledgements queued for the current connection are discarded by async_sender::resend() when a write that was
    // started on an OLDER connection is still outstanding at that moment and fails afterwards
    auto late_old_write = [&](const std::vector<int>& idx) {
        for (int si : idx) {
            auto& sp = s.broker.sent[si];
            if (!sp.delivered_seq) continue;
            for (auto& g : s.net.groups)
                if (g.conn < sp.conn && g.seq_start < sp.delivered_seq && (!g.done || (g.seq_done > sp.delivered_seq && g.result))) return true;
        }
        return false;
    };
    if (late_old_write(m.publish_idx) || late_old_write(m.pubrel_idx)) h.multi_conn = true;
    // an older QoS 2 exchange with the same packet identifier was cut short (session dropped by the broker or connection
    // lost): the client may still hold its state and confuse the two exchanges
    for (auto& o : s.broker.msgs) {
        if (o.id >= m.id || o.qos != 2 || o.pid != m.pid || m.pid == 0) continue;
        std::set<int> oc;
        for (int si : o.publish_idx) if (s.broker.sent[si].seq) oc.insert(s.broker.sent[si].conn);
        bool cut = o.session_lost || oc.size() >= 2;
        for (int c : oc) { auto* nc = s.net.conn(c); if (nc && nc->transport_fault) cut = true; }
        if (cut) h.multi_conn = true;
    }
    return h;
}
}

// ------------------------------------------------------------------ C04
void Ctx::c04() {
    if (hostile_run) return;
    auto& B = s.broker;
    // step id of BrokerPublish -> OutMsg
    std::map<int, int> msg_by_step;
    for (auto& m : B.msgs) { int st = msg_of_payload(m.payload); if (st >= 0) msg_by_step[st] = m.id; }

    // wire: PUBCOMP only after a PUBREL for that id was delivered on this session
    for (auto& r : B.recv) {
        if (!r.decode_err.empty() || r.pkt.type != PUBCOMP) continue;
        bool ok = false;
        for (auto& sp : B.sent)
            if (!sp.hostile && sp.pkt.type == PUBREL && sp.pkt.pid == r.pkt.pid && sp.delivered_seq && sp.delivered_seq < r.seq) ok = true;
        if (!ok) fail("C04", "pubcomp_before_pubrel", "conn " + std::to_string(r.conn) + ": client sent PUBCOMP pid " + std::to_string(r.pkt.pid) +
                      " at seq " + std::to_string(r.seq) + " but no PUBREL with that id had been delivered");
    }
    // wire: acks carry the right type for the QoS of the PUBLISH they answer, reason code success, same id
    for (auto& r : B.recv) {
        if (!r.decode_err.empty()) continue;
        if (r.pkt.type != PUBACK && r.pkt.type != PUBREC) continue;
        const bk::SentPkt* pub = nullptr;
        for (auto& sp : B.sent)
            if (!sp.hostile && sp.pkt.type == PUBLISH && sp.pkt.pid == r.pkt.pid && sp.pkt.qos > 0 && sp.delivered_seq && sp.delivered_seq < r.seq) pub = &sp;
        if (!pub) continue;   // stray acks are reported by the broker model online
        if ((pub->pkt.qos == 1) != (r.pkt.type == PUBACK))
            fail("C04", "ack_type_mismatch", "conn " + std::to_string(r.conn) + ": " + ptype_name(r.pkt.type) + " for a QoS " + std::to_string(pub->pkt.qos) + " PUBLISH (pid " + std::to_string(r.pkt.pid) + ")");
    }

    // wire, promptness on a healthy connection: the FIRST transmission of a QoS 1/2 PUBLISH, and a PUBREL whose PUBREC travelled on
    // this very connection, must be acknowledged (PUBACK / PUBREC / PUBCOMP) within 10 s when the connection stays up and untouched
    // by any injected fault for those 10 s and nothing stalls. (Acknowledgements are neither throttled nor do they wait for the
    // application; the known inbound defects K1-K5, K8, K9 all need a retransmission or a second connection and are not in scope.)
    {
        constexpr ns_t T = 10 * SEC;
        ns_t run_end = s.suffix_end_t ? s.suffix_end_t : s.w.now;
        for (auto& m : s.marks) if (m.kind == MarkKind::teardown_begin || m.kind == MarkKind::destroy || m.kind == MarkKind::cancel_client || m.kind == MarkKind::disconnect_init) run_end = std::min(run_end, m.t);
        for (auto& sp : B.sent) {
            if (sp.hostile || !sp.delivered_seq || sp.msg < 0 || sp.msg >= (int)B.msgs.size()) continue;
            if (sp.pkt.type != PUBLISH && sp.pkt.type != PUBREL) continue;
            if (sp.pkt.type == PUBLISH && sp.pkt.qos == 0) continue;
            auto& m = B.msgs[sp.msg];
            auto* nc = s.net.conn(sp.conn);
            if (!nc || nc->fault_injected || nc->transport_fault || nc->blackhole || m.session_lost) continue;
            if (B.knobs.dup_ack_p > 0) continue;
            ns_t end = run_end;
            if (nc->client_closed) end = std::min(end, nc->client_close_time);
            if (nc->dead) end = std::min(end, nc->t_dead);
            if (nc->broker_closed) end = std::min(end, nc->t_broker_closed);
            if (sp.delivered_t + T > end) continue;
            bool stalled = false;
            for (auto& mk : s.marks) if (mk.kind == MarkKind::stall && mk.t - (ns_t)mk.arg <= sp.delivered_t + T && mk.t >= sp.delivered_t) stalled = true;   // the mark is set at the end of the stall
            if (stalled) continue;
            uint8_t want;
            if (sp.pkt.type == PUBLISH) {
                if (m.publish_idx.empty() || m.publish_idx[0] != sp.idx || sp.pkt.dup) continue;
                want = sp.pkt.qos == 1 ? PUBACK : PUBREC;
            } else {
                if (m.pubrel_idx.empty() || m.pubrel_idx[0] != sp.idx || m.publish_idx.size() != 1) continue;
                bool pubrec_here = false;
                for (auto& r : B.recv) if (r.decode_err.empty() && r.pkt.type == PUBREC && r.pkt.pid == sp.pkt.pid && r.conn == sp.conn && r.seq > m.first_send_seq && r.seq < sp.seq) pubrec_here = true;
                if (!pubrec_here) continue;
                want = PUBCOMP;
            }
            // the client must still be reading this connection: a later read proves that the delivered bytes were parsed. (When the
            // 1.5*K read timer and the data become ready at the same instant and the timer's handler runs first, read_op reports a
            // time-out and drops the bytes that the completed read had already taken from the transport; the reader reconnects while
            // the writer keeps pinging on the old stream for as long as the new attempts take.)
            bool read_after = false;
            for (auto& rr : s.net.reads) if (rr.conn == sp.conn && rr.seq_start > sp.delivered_seq) { read_after = true; break; }
            if (!read_after) continue;
            // no composed write of this connection may have taken long inside the window (short writes with slow completions add up)
            bool slow_write = false;
            for (auto& g : s.net.groups) if (g.conn == sp.conn && g.t_start <= sp.delivered_t + T && (!g.done || g.t_done >= sp.delivered_t) && (!g.done || g.t_done - g.t_start > 2 * SEC)) slow_write = true;
            if (slow_write) continue;
            bool acked = false;
            for (auto& r : B.recv) if (r.decode_err.empty() && r.pkt.type == want && r.pkt.pid == sp.pkt.pid && r.conn == sp.conn && r.seq > sp.delivered_seq && r.t <= sp.delivered_t + T) acked = true;
            if (!acked)
                fail("C04", sp.pkt.type == PUBREL ? "pubrel_not_answered_promptly" : "publish_not_acknowledged_promptly",
                     "conn " + std::to_string(sp.conn) + ": " + packet_str(sp.pkt) + " of message " + std::to_string(m.id) + " was delivered at t=" + std::to_string(sp.delivered_t / 1000000) +
                     " ms on a connection that stayed up and fault-free for 10 more seconds, but no " + ptype_name(want) + " came within them");
        }
    }

    // wire, without any timing assumption: a PUBREL (first transmission, PUBREC written on this connection by a write that was
    // reported successful) has been parsed and dispatched once the client started a later read on the connection; the waiter for
    // it is registered by the completion handler of the PUBREC write, which then finds the parked PUBREL and queues the PUBCOMP
    // from a posted continuation. Handlers run in FIFO order, so when a composed write that STARTED after both events has
    // completed, the PUBCOMP is queued, and the write after that one carries it (acknowledgements are never throttled). Three
    // later composed writes without the PUBCOMP mean the PUBREL was dropped.
    for (auto& sp : B.sent) {
        if (sp.hostile || !sp.delivered_seq || sp.pkt.type != PUBREL || sp.msg < 0 || sp.msg >= (int)B.msgs.size() || B.knobs.dup_ack_p > 0) continue;
        auto& m = B.msgs[sp.msg];
        auto* nc = s.net.conn(sp.conn);
        if (!nc || m.session_lost || m.pubrel_idx.empty() || m.pubrel_idx[0] != sp.idx || m.publish_idx.size() != 1) continue;   // first PUBREL of an exchange that began here
        if (multi_gen_active(sp.seq, sp.delivered_seq + 1)) continue;
        const bk::RecvPkt* rec = nullptr;
        for (auto& r : B.recv) if (r.decode_err.empty() && r.pkt.type == PUBREC && r.pkt.pid == sp.pkt.pid && r.conn == sp.conn && r.seq > m.first_send_seq && r.seq < sp.seq) rec = &r;
        if (!rec || !rec->group) continue;
        auto& rg = s.net.groups[rec->group - 1];
        if (!rg.done || rg.result) continue;
        uint64_t read_after = 0;
        for (auto& rr : s.net.reads) if (rr.conn == sp.conn && rr.seq_start > sp.delivered_seq) { read_after = rr.seq_start; break; }
        if (!read_after) continue;
        uint64_t X = std::max(read_after, rg.seq_done);
        // an older QoS 2 exchange with this identifier that was cut short may have left a waiter behind (K3): not this rule's business
        if (history_of(s, m).multi_conn) continue;
        int later = 0; uint64_t third_start = 0;
        for (auto& g : s.net.groups) if (g.conn == sp.conn && g.seq_start > X) { if (++later == 3) { third_start = g.seq_start; break; } }
        if (later < 3) continue;
        bool answered = false;
        for (auto& r : B.recv) if (r.decode_err.empty() && r.pkt.type == PUBCOMP && r.pkt.pid == sp.pkt.pid && r.conn == sp.conn && r.seq > sp.delivered_seq) answered = true;
        // the PUBCOMP may sit in a write that never reached the broker: look at what the client handed to the transport instead
        if (!answered) {
            bool cancelled_by_app = false;
            for (auto& mk : s.marks) if ((mk.kind == MarkKind::cancel_client || mk.kind == MarkKind::disconnect_init || mk.kind == MarkKind::destroy || mk.kind == MarkKind::teardown_begin) && mk.seq <= third_start + 50) cancelled_by_app = true;
            if (cancelled_by_app || nc->transport_fault || nc->blackhole || nc->severed) continue;
            fail("C04", "pubrel_dropped", "conn " + std::to_string(sp.conn) + ": " + packet_str(sp.pkt) + " of message " + std::to_string(m.id) + " was read and dispatched (seq " + std::to_string(read_after) +
                 "), its PUBREC write had completed (seq " + std::to_string(rg.seq_done) + "), the client started three more writes on the connection afterwards, and none carried the PUBCOMP");
        }
    }

    // application side
    struct Deliv { int msg; uint64_t seq; const Done* d; int svc_gen; };
    std::vector<Deliv> delivs;
    std::map<int, int> count;
    for (auto& o : s.ops) {
        if (o.kind != OpKind::receive) continue;
        for (auto& d : o.dones) {
            if (d.c.ec) continue;
            int st = msg_of_payload(d.c.payload);
            auto it = msg_by_step.find(st);
            if (st < 0 || it == msg_by_step.end()) {
                fail("C04", "unknown_message_delivered", "async_receive delivered a message the broker never sent: topic " + d.c.topic + " payload " + hex(d.c.payload, 24));
                continue;
            }
            auto& m = B.msgs[it->second];
            if (d.c.topic != m.topic || d.c.payload != m.payload || !props_equal(d.c.props, m.props))
                fail("C04", "message_content_differs", "message " + std::to_string(m.id) + " delivered as topic " + d.c.topic + " props " + props_str(d.c.props) +
                     " but the broker sent topic " + m.topic + " props " + props_str(m.props));
            delivs.push_back({m.id, d.seq, &d, o.svc_gen});
            ++count[m.id];
        }
    }
    std::sort(delivs.begin(), delivs.end(), [](const Deliv& a, const Deliv& b) { return a.seq < b.seq; });
    for (auto& [id, n] : count) {
        auto& m = B.msgs[id];
        if (m.qos == 2 && n > 1) fail("C04", history_of(s, m).publish_retransmitted ? "qos2_delivered_twice_after_dup_retransmission" : "qos2_delivered_twice", "QoS 2 message " + std::to_string(id) + " (" + m.topic + ") handed to the application " + std::to_string(n) + " times");
        if (m.qos == 0 && n > 1) fail("C04", "qos0_delivered_twice", "QoS 0 message " + std::to_string(id) + " handed to the application " + std::to_string(n) + " times");
    }
    // order of first deliveries per QoS level == order of first sends
    // (per service generation: while a service winds down after async_disconnect/cancel() and its successor already runs, each
    // has its own receive channel and its own connection; what the two hand to the application interleaves freely)
    std::set<int> gens; for (auto& d : delivs) gens.insert(d.svc_gen);
    for (int g : gens) for (int q = 0; q <= 2; ++q) {
        std::set<int> seen; uint64_t last_first_send = 0; int last_msg = -1;
        for (auto& d : delivs) {
            auto& m = B.msgs[d.msg];
            if (d.svc_gen != g) continue;
            if (m.qos != q || !seen.insert(d.msg).second) continue;
            // K12: the PUBREL of the earlier message overtook the completion of the write that carried its PUBREC (it is
            // parked, and the PUBCOMP is sent from a posted continuation), the PUBREL of the later message did not
            // (its PUBCOMP is sent at once): the two exchanges finish in the wrong order without any connection loss
            bool early_pubrel = false;
            if (q == 2 && m.first_send_seq < last_first_send && m.sends < 2 && B.msgs[last_msg].sends < 2)
                for (auto& r : B.recv) {
                    if (!r.decode_err.empty() || r.pkt.type != PUBREC || r.pkt.pid != m.pid || r.seq < m.first_send_seq || !r.group) continue;
                    auto& g = s.net.groups[r.group - 1];
                    for (int si : m.pubrel_idx) if (B.sent[si].delivered_seq && (!g.done || B.sent[si].delivered_seq < g.seq_done)) early_pubrel = true;
                    // ... and it is K12's history only if that one PUBREL was answered on its connection (a PUBREL that had to be
                    // retransmitted, or was never answered, is another failure)
                    if (early_pubrel) {
                        bool answered = false;
                        for (auto& r2 : B.recv) if (r2.decode_err.empty() && r2.pkt.type == PUBCOMP && r2.pkt.pid == m.pid && r2.conn == r.conn && r2.seq > r.seq) answered = true;
                        if (m.pubrel_idx.size() != 1 || !answered) early_pubrel = false;
                    }
                    break;
                }
            if (m.first_send_seq < last_first_send)
                fail("C04", early_pubrel ? "qos2_order_inverted_by_early_pubrel" : ((history_of(s, m).multi_conn || history_of(s, B.msgs[last_msg]).multi_conn || m.sends >= 2 || B.msgs[last_msg].sends >= 2 || m.session_lost || B.msgs[last_msg].session_lost) ? "order_within_qos_after_connection_loss" : "order_within_qos"), "QoS " + std::to_string(q) + " message " + std::to_string(d.msg) + " (first sent at seq " + std::to_string(m.first_send_seq) +
                     ") was delivered after message " + std::to_string(last_msg) + " (first sent at seq " + std::to_string(last_first_send) + ")");
            if (m.first_send_seq >= last_first_send) { last_first_send = m.first_send_seq; last_msg = d.msg; }
        }
    }
    // lower bounds at the end of the healed suffix
    if (s.budget_exhausted || s.livelock || !s.plan.knobs.final_heal || !s.teardown_done) return;
    uint64_t last_boundary = 0;
    for (auto& m : s.marks)
        if (m.seq < s.suffix_end_seq && (m.kind == MarkKind::cancel_client || m.kind == MarkKind::disconnect_init || m.kind == MarkKind::destroy ||
                                         m.kind == MarkKind::recreate || (m.kind == MarkKind::op_cancel && m.arg == 1)))
            last_boundary = std::max(last_boundary, m.seq);
    bool running_at_end = false;
    for (auto& o : s.ops) if (o.kind == OpKind::run && o.init_seq < s.suffix_end_seq && o.init_seq > last_boundary && (o.dones.empty() || o.dones[0].seq > s.suffix_end_seq)) running_at_end = true;
    if (!running_at_end) return;
    // the application only sees what arrived after async_run of the final service generation
    uint64_t run_seq = 0;
    for (auto& o : s.ops) if (o.kind == OpKind::run && o.init_seq > last_boundary) { run_seq = o.init_seq; break; }
    for (auto& m : B.msgs) {
        if (m.session_lost || m.sends == 0 || m.created_seq < run_seq) continue;
        if (m.emission_withheld) continue;      // an injected fault made the broker itself drop a (re)transmission: no lower bound
        // was some transmission completely delivered to the client?
        bool delivered = false;
        for (int si : m.publish_idx) if (B.sent[si].delivered_seq && !B.sent[si].hostile) delivered = true;
        if (!delivered) continue;
        int n = count.count(m.id) ? count[m.id] : 0;
        MsgHistory mh = history_of(s, m);
        if (m.qos == 2 && n == 0)
            fail("C04", (mh.multi_conn || mh.ack_write_error) ? "qos2_lost_across_connection_loss" : "qos2_not_delivered", "QoS 2 message " + std::to_string(m.id) + " (" + m.topic + ") was delivered to the client but reached async_receive " + std::to_string(n) + " times by the end of the healed suffix");
        if (m.qos == 1 && n < 1)
            fail("C04", mh.ack_write_error ? "qos1_dropped_after_ack_write_error" : mh.multi_conn ? "qos1_lost_across_connection_loss" : "qos1_not_delivered", "QoS 1 message " + std::to_string(m.id) + " (" + m.topic + ") was delivered to the client but never reached async_receive");
        if (m.qos > 0 && (m.st == bk::OutMsg::sent || m.st == bk::OutMsg::pubrecd)) {
            // broker still waits for an acknowledgement although its last transmission was delivered long ago
            uint64_t last_deliv = 0; ns_t last_t = 0;
            for (int si : m.publish_idx) if (B.sent[si].delivered_seq > last_deliv) { last_deliv = B.sent[si].delivered_seq; last_t = B.sent[si].delivered_t; }
            for (int si : m.pubrel_idx) if (B.sent[si].delivered_seq > last_deliv) { last_deliv = B.sent[si].delivered_seq; last_t = B.sent[si].delivered_t; }
            bool last_is_current = false;
            if (auto* c = B.current()) for (int si : c->sent) if (B.sent[si].msg == m.id && B.sent[si].delivered_seq) last_is_current = true;
            if (last_is_current && s.suffix_end_t - last_t > 60 * SEC)
                fail("C04", m.st == bk::OutMsg::pubrecd ? (mh.multi_conn ? "retransmitted_pubrel_unanswered" : "pubrel_unanswered")
                                                          : (mh.multi_conn ? "retransmitted_publish_unacknowledged" : "publish_unacknowledged"),
                     std::string(m.st == bk::OutMsg::pubrecd ? "PUBREL" : "PUBLISH") + " pid " + std::to_string(m.pid) + " of message " + std::to_string(m.id) +
                     " was delivered on the current connection " + std::to_string((s.suffix_end_t - last_t) / SEC) + " s ago and never acknowledged");
        }
    }
}

// ------------------------------------------------------------------ C10
void Ctx::c10() {
    auto& B = s.broker;
    const auto& cfg = s.plan.knobs.client;
    for (size_t ci = 0; ci < s.net.conns.size(); ++ci) {
        auto& nc = *s.net.conns[ci];
        auto* bc = B.bc((int)ci);
        if (!bc || recv_by_conn[ci].empty()) continue;
        auto& first = B.recv[recv_by_conn[ci].front()];
        // (a) first packet is the configured CONNECT
        if (!first.decode_err.empty()) continue;     // C17 reports it
        if (first.pkt.type != CONNECT) {
            fail("C10", "first_packet_not_connect", "connection " + std::to_string(ci) + ": first packet is " + packet_str(first.pkt));
        } else {
            const Packet& p = first.pkt;
            std::string diff;
            if (p.client_id != cfg.client_id) diff += " client_id";
            if (p.username.value_or("") != cfg.username || p.username.has_value() != !cfg.username.empty()) diff += " username";
            if (p.password.value_or("") != cfg.password || p.password.has_value() != !cfg.password.empty()) diff += " password";
            if (p.keep_alive != cfg.keep_alive.value_or(60)) diff += " keep_alive(" + std::to_string(p.keep_alive) + ")";
            if (p.clean_start) diff += " clean_start=1";
            if (p.will.has_value() != cfg.will.has_value()) diff += " will-presence";
            else if (p.will && (p.will->topic != cfg.will->topic || p.will->payload != cfg.will->payload || p.will->qos != cfg.will->qos ||
                                p.will->retain != cfg.will->retain || !props_equal(p.will->props, cfg.will->props))) diff += " will";
            Props expect = cfg.connect_props;
            if (cfg.use_authenticator) {
                expect.erase(std::remove_if(expect.begin(), expect.end(), [](const Prop& x) { return x.id == P_AUTH_METHOD || x.id == P_AUTH_DATA; }), expect.end());
                Prop m; m.id = P_AUTH_METHOD; m.s1 = cfg.auth_method; expect.push_back(m);
                Prop d; d.id = P_AUTH_DATA; d.s1 = "a0:"; expect.push_back(d);
            }
            if (!props_equal(p.props, expect)) diff += " properties(" + props_str(p.props) + " vs " + props_str(expect) + ")";
            if (!diff.empty()) fail("C10", "connect_differs_from_configuration", "connection " + std::to_string(ci) + ": CONNECT differs in:" + diff);
            // the same comparison is C17's "the decoded fields equal the values supplied" for the CONNECT packet
            if (!diff.empty()) fail("C17", "connect_fields_differ", "connection " + std::to_string(ci) + ": CONNECT decodes to other values than configured:" + diff);
        }
        // exactly one CONNECT, (b) nothing but AUTH before a successful CONNACK was delivered
        int connects = 0;
        uint64_t connack_delivered = 0;
        if (bc->connack_sent_idx >= 0) connack_delivered = B.sent[bc->connack_sent_idx].delivered_seq;
        for (size_t k = 0; k < recv_by_conn[ci].size(); ++k) {
            auto& r = B.recv[recv_by_conn[ci][k]];
            if (!r.decode_err.empty()) continue;
            if (r.pkt.type == CONNECT) { if (++connects > 1) fail("C10", "second_connect", "connection " + std::to_string(ci) + ": more than one CONNECT"); continue; }
            if (k == 0) continue;
            if (r.pkt.type == AUTH && cfg.use_authenticator) continue;
            uint64_t written_at = r.first_group ? s.net.groups[r.first_group - 1].seq_start : r.seq;
            if (!connack_delivered || written_at < connack_delivered)
                fail("C10", "packet_before_connack", "connection " + std::to_string(ci) + ": " + packet_str(r.pkt) + " written at seq " + std::to_string(written_at) +
                     (connack_delivered ? " before the CONNACK was delivered at seq " + std::to_string(connack_delivered) : " although no successful CONNACK was ever delivered"));
        }
        (void)nc;
    }
    // (c) a silent handshake is abandoned exactly 5 s after the attempt began
    for (size_t ci = 0; ci < s.net.conns.size(); ++ci) {
        auto& nc = *s.net.conns[ci];
        if (nc.decision.outcome != sim::ConnectOutcome::ok && nc.decision.outcome != sim::ConnectOutcome::hang) continue;
        if (nc.transport_fault || nc.b2c_arrived != 0 || nc.dead || nc.fin_arrived) continue;
        if (!nc.client_closed) continue;
        auto* bc = B.bc((int)ci);
        if (bc && bc->connack_sent_idx >= 0) continue;
        if (boundary_between(nc.seq_begin - 1, nc.client_close_seq + 1)) continue;
        if (multi_gen_active(nc.seq_begin, nc.client_close_seq)) continue;     // may belong to a service that is being wound down
        {   // the configured authenticator reported failure: the attempt is given up at once
            bool auth_failed = false;
            for (auto& l : s.logs) if (l.k == LogRec::auth_step && l.n == 1 && l.ec == (int)ci) auth_failed = true;
            if (auth_failed) continue;
        }
        {   // an async_disconnect that finished (its 5 s limit) while this attempt was pending cancels the attempt
            bool ended_by_disconnect = false;
            for (auto& o : s.ops) if (o.kind == OpKind::disconnect && !o.dones.empty() && o.dones[0].seq >= nc.seq_begin && o.dones[0].seq <= nc.client_close_seq + 2) ended_by_disconnect = true;
            if (ended_by_disconnect) continue;
        }
        // a teardown (final cancel) also closes it
        bool torn = false;
        for (auto& m : s.marks) if ((m.kind == MarkKind::teardown_begin) && m.seq <= nc.client_close_seq) torn = true;
        if (torn) continue;
        ns_t dur = nc.client_close_time - nc.t_begin;
        ns_t slack = stall_between(nc.seq_begin, nc.client_close_seq);
        if (dur < 5 * SEC || dur > 5 * SEC + slack)
            fail("C10", "handshake_timeout_not_5s", "connection attempt " + std::to_string(ci) + " got no byte from the broker and was abandoned after " +
                 std::to_string(dur / 1000000) + " ms (expected exactly 5000 ms" + (slack ? " + stall " + std::to_string(slack / 1000000) + " ms" : "") + ")");
    }
    // (d) rotation over the broker list and pauses
    int n = (int)s.plan.knobs.hosts.size();
    // A resolution issued by a service object OLDER than one that has already resolved belongs to a service that is winding down
    // (cancel()/async_disconnect replaced it; resolve_op does not look at is_open(), so its reconnect loop may start one more
    // resolution when a slow one finally completes). It is no part of the running service's rotation: left out.
    std::vector<sim::ResolveRec> rl;
    {
        int newest = -1;
        for (auto& r : s.resolver.log) {
            if (r.inst >= 0 && r.inst < newest) continue;
            newest = std::max(newest, r.inst);
            rl.push_back(r);
        }
    }
    auto conns_of = [&](size_t i) {
        std::vector<int> v;
        uint64_t from = rl[i].seq_done ? rl[i].seq_done : rl[i].seq, to = i + 1 < rl.size() ? rl[i + 1].seq : UINT64_MAX;
        for (auto& c : s.net.conns) if (c->seq_begin > from && c->seq_begin < to) v.push_back(c->id);
        return v;
    };
    // handshake complete from the client's point of view: the successful CONNACK was delivered AND processed (logged)
    // before the client gave the stream up (a stall can make the 5 s handshake timer win although the bytes had arrived)
    auto handshaken = [&](int ci) {
        auto* bc = B.bc(ci);
        if (!bc || bc->connack_sent_idx < 0 || !B.sent[bc->connack_sent_idx].delivered_seq) return false;
        uint64_t d = B.sent[bc->connack_sent_idx].delivered_seq;
        auto& nc = *s.net.conns[ci];
        uint64_t end = nc.client_closed ? nc.client_close_seq : UINT64_MAX;
        bool logged = false;
        for (auto& l : s.logs) {
            if (l.k == LogRec::connack && l.rc == 0 && l.seq >= d && l.seq <= end) logged = true;
            // the authenticator rejected the server's final data: the client abandons the attempt after the CONNACK
            if (l.k == LogRec::auth_step && l.n == 1 && l.ec == ci) return false;
        }
        return logged;
    };
    int wraps_in_streak = 0; int last_success_host = -1; bool k_known = true;
    for (size_t i = 0; i < rl.size(); ++i) {
        int h = s.host_of(rl[i].host);
        if (h < 0) continue;
        bool multi = i > 0 && multi_gen_active(rl[i - 1].seq, rl[i].seq_done ? rl[i].seq_done : rl[i].seq);
        bool bnd = i == 0 ? true : (boundary_between(rl[i - 1].seq, rl[i].seq) || multi);
        if (i == 0) { if (h != 0) fail("C10", "rotation_order", "first resolved host is " + rl[i].host + ", not the first of the list"); }
        else {
            int hp = s.host_of(rl[i - 1].host);
            int expect = (hp + 1) % n;
            if (h != expect && !(bnd && h == 0) && !multi)
                fail("C10", "rotation_order", "resolve #" + std::to_string(i) + " went to " + rl[i].host + " after " + rl[i - 1].host + " (expected " + s.plan.knobs.hosts[expect].name + ")");
        }
        if (bnd && i > 0) { wraps_in_streak = 0; last_success_host = -1; k_known = false; }
        // endpoints of this host in order, stopping at the first success
        auto cs = conns_of(i);
        if (multi_gen_active(rl[i].seq, i + 1 < rl.size() ? rl[i + 1].seq : rl[i].seq + 1)) { wraps_in_streak = 0; last_success_host = -1; k_known = false; continue; }
        ns_t r_elapsed = rl[i].seq_done ? rl[i].t_done - rl[i].t : 0;
        bool r_unknown = !rl[i].seq_done || r_elapsed == 5 * SEC || stall_between(rl[i].seq, i + 1 < rl.size() ? rl[i + 1].seq : rl[i].seq_done + 50) > 0;   // raced the 5 s resolve timer
        if (r_unknown) { wraps_in_streak = 0; k_known = false; continue; }
        bool usable = !rl[i].decision.ec && r_elapsed < 5 * SEC;
        if (!usable && !cs.empty() && !boundary_between(rl[i].seq, s.net.conns[cs[0]]->seq_begin))
            fail("C10", "connect_after_failed_resolve", "connection attempt " + std::to_string(cs[0]) + " follows a failed/timed-out resolve of " + rl[i].host);
        bool success = false;
        for (size_t k = 0; k < cs.size() && usable; ++k) {
            auto& c = *s.net.conns[cs[k]];
            if (boundary_between(rl[i].seq, c.seq_begin)) break;
            if (c.host_idx != h || c.ep_idx != (int)k)
                fail("C10", "endpoint_order", "attempt " + std::to_string(c.id) + " after resolving " + rl[i].host + " went to host " + std::to_string(c.host_idx) + " endpoint " +
                     std::to_string(c.ep_idx) + " (expected endpoint " + std::to_string(k) + ")");
            if (success) fail("C10", "attempt_after_success", "attempt " + std::to_string(c.id) + " although the previous endpoint of " + rl[i].host + " completed its handshake");
            if (handshaken(c.id)) success = true;
        }
        if (success) { wraps_in_streak = 0; last_success_host = h; k_known = true; }
        // pause before the next resolve
        if (i + 1 < rl.size() && !success && !boundary_between(rl[i].seq, rl[i + 1].seq) && rl[i].seq_done) {
            int hn = s.host_of(rl[i + 1].host);
            // skipped endpoints?
            if (usable && cs.size() < rl[i].decision.endpoints.size())
                fail("C10", "endpoint_skipped", "only " + std::to_string(cs.size()) + " of " + std::to_string(rl[i].decision.endpoints.size()) + " endpoints of " + rl[i].host + " were tried before moving on");
            ns_t t_fail = rl[i].t_done; uint64_t seq_fail = rl[i].seq_done;
            if (usable && !cs.empty()) {
                auto& lc = *s.net.conns[cs.back()];
                if (!lc.client_closed) continue;
                t_fail = lc.client_close_time; seq_fail = lc.client_close_seq;
            }
            ns_t gap = rl[i + 1].t - t_fail;
            ns_t slack = stall_between(seq_fail, rl[i + 1].seq);
            bool wrap = hn <= h;
            if (!wrap) {
                if (gap < 0 || gap > slack)
                    fail("C10", "pause_inside_pass", std::to_string(gap / 1000000) + " ms passed between the failure on " + rl[i].host + " (resolve #" + std::to_string(i) + ", failed at t=" + std::to_string(t_fail / 1000000) + " ms) and the attempt on " + rl[i + 1].host + " at t=" + std::to_string(rl[i + 1].t / 1000000) + " ms (no wrap-around)");
            } else {
                if (gap < 500 * MS || gap > 16500 * MS + slack)
                    fail("C10", "backoff_out_of_range", "pause at wrap-around of the broker list was " + std::to_string(gap / 1000000) + " ms (allowed 500..16500 ms)");
                // k-th consecutive wrap of one reconnect: 2^min(k,4) s +- 0.5 s
                int k = wraps_in_streak;
                if (wraps_in_streak == 0 && last_success_host == n - 1) k = 1;     // the reconnect began with a wrap
                if (last_success_host < 0 && wraps_in_streak == 0 && i + 1 >= (size_t)n && false) k = 0;
                ns_t base = (ns_t)(1 << std::min(k, 4)) * SEC;
                bool definite = k_known;
                if (definite && (gap < base - 500 * MS || gap > base + 500 * MS + slack))
                    fail("C10", "backoff_exponent", "wrap #" + std::to_string(k) + " of one reconnect paused " + std::to_string(gap / 1000000) + " ms, expected " +
                         std::to_string(base / 1000000) + " +- 500 ms");
                wraps_in_streak = k + 1;
            }
        } else if (i + 1 < rl.size() && !success && boundary_between(rl[i].seq, rl[i + 1].seq)) {
            wraps_in_streak = 0; k_known = false;
        }
    }
}

// ------------------------------------------------------------------ C11 (system half)
void Ctx::c11() {
    for (auto& o : s.broker.overlaps) {
        // attempts of two different service objects (one being wound down after async_disconnect / cancel() /
        // destruction, its successor already running) are not one client's reconnection
        if (multi_gen_active(o.old_begin, o.new_begin) || boundary_between(o.old_begin, o.new_begin)) continue;
        fail("C11", o.resolve ? "resolve_overlaps_attempt" : "overlapping_attempts", o.text);
    }
}

// ------------------------------------------------------------------ C11x: detail::autoconnect_stream on its own
// One stream object for the whole run (cancel() + close() + open() re-use it), so nothing is excused by service
// generations: at no time are two connection attempts in progress, every operation completes exactly once, and once
// faults stop the stream reconnects and the queued writes go out.
void Ctx::c11x() {
    for (auto& o : s.broker.overlaps)
        fail("C11", o.resolve ? "resolve_overlaps_attempt" : "overlapping_attempts", o.text);
    if (s.livelock) { fail("C11", "reconnect_livelock", "more than 200000 handler steps at one virtual instant"); return; }
    for (auto& o : s.ops)
        if (o.dones.size() > 1) fail("C11", "completed_twice", opstr(o) + " completed " + std::to_string(o.dones.size()) + " times");
    if (s.budget_exhausted || !s.plan.knobs.final_heal) return;
    // a cancelled trigger is told so: operations of a stream that was cancelled have all completed by the end
    int final_gen = -1; bool running_at_end = false;
    for (auto& o : s.ops) if (o.kind == OpKind::run) {
        const Done* d = done(o);
        if (o.init_seq < s.suffix_end_seq && (!d || d->seq > s.suffix_end_seq)) { running_at_end = true; final_gen = o.svc_gen; }
    }
    for (auto& o : s.ops) {
        if (o.kind != OpKind::publish && o.kind != OpKind::run) continue;
        if (!o.client_running && o.kind == OpKind::publish) continue;
        const Done* d = done(o);
        bool open_at_end = !d || d->seq > s.suffix_end_seq;
        if (!open_at_end) continue;
        if (o.init_seq > s.suffix_end_seq) continue;
        if (running_at_end && o.svc_gen == final_gen) {
            if (o.kind == OpKind::publish)
                fail("C11", "no_connection_after_heal", opstr(o) + " still waiting for a connection " + std::to_string((s.suffix_end_t - s.heal_t) / SEC) + " s after the last fault");
        } else
            fail("C11", "cancelled_trigger_never_resolved", opstr(o) + " was never completed although its stream was cancelled and closed");
    }
}

// ------------------------------------------------------------------ C12
void Ctx::c12() {
    auto& B = s.broker;
    const auto& cfg = s.plan.knobs.client;
    auto K_of = [&](int ci) -> int {
        auto* bc = B.bc(ci);
        if (!bc || bc->connack_sent_idx < 0) return -1;
        // the configured authenticator rejected the handshake (possibly right after the CONNACK): the client never regarded this
        // connection as established, no keep-alive duty on it
        for (auto& l : s.logs) if (l.k == LogRec::auth_step && l.n == 1 && l.ec == ci) return -1;
        return bc->caps.server_ka ? (int)*bc->caps.server_ka : (int)cfg.keep_alive.value_or(60);
    };
    // (2) timed reads: every post-handshake read lives at most 1.5*K; it is abandoned (slot cancel) exactly then, never earlier
    for (auto& r : s.net.reads) {
        auto* bc = B.bc(r.conn);
        if (!bc || bc->connack_sent_idx < 0) continue;
        auto& ca = B.sent[bc->connack_sent_idx];
        if (!ca.delivered_seq || r.seq_start < ca.delivered_seq) continue;      // handshake reads are not keep-alive reads
        if (bc->hostile_touched) continue;
        int K = K_of(r.conn);
        if (K < 0) continue;
        ns_t limit = (ns_t)K * 1500 * MS;
        bool pending = r.end == sim::ReadRec::pending;
        ns_t t_end = pending ? s.w.now : r.t_end;
        uint64_t seq_end = pending ? s.w.seq : r.seq_end;
        ns_t dur = t_end - r.t_start;
        ns_t slack = stall_between(r.seq_start, seq_end);
        if (r.end == sim::ReadRec::slot_cancel) {
            if (K == 0)
                fail("C12", "timeout_with_keepalive_0", "connection " + std::to_string(r.conn) + ": a read was abandoned after " + std::to_string(dur / 1000000) + " ms although keep-alive is 0");
            else if (dur < limit)
                fail("C12", "timeout_too_early", "connection " + std::to_string(r.conn) + " (K=" + std::to_string(K) + "): read abandoned after " + std::to_string(dur / 1000000) +
                     " ms without data, earlier than 1.5*K = " + std::to_string(limit / 1000000) + " ms");
            else if (dur > limit + slack)
                fail("C12", "timeout_too_late", "connection " + std::to_string(r.conn) + " (K=" + std::to_string(K) + "): read abandoned after " + std::to_string(dur / 1000000) +
                     " ms, later than 1.5*K = " + std::to_string(limit / 1000000) + " ms");
        } else if (K > 0 && dur > limit + slack && !s.budget_exhausted) {
            fail("C12", "silence_not_detected", "connection " + std::to_string(r.conn) + " (K=" + std::to_string(K) + "): a read waited " + std::to_string(dur / 1000000) +
                 " ms without a byte and was not abandoned at 1.5*K = " + std::to_string(limit / 1000000) + " ms");
        }
    }
    // (1)/(3) PINGREQ schedule on fault-free connections
    for (size_t ci = 0; ci < s.net.conns.size(); ++ci) {
        auto& nc = *s.net.conns[ci];
        auto* bc = B.bc((int)ci);
        int K = K_of((int)ci);
        if (K < 0 || !bc) continue;
        auto& ca = B.sent[bc->connack_sent_idx];
        if (!ca.delivered_seq) continue;
        std::vector<const bk::RecvPkt*> pings;
        for (int ri : recv_by_conn[ci]) if (B.recv[ri].decode_err.empty() && B.recv[ri].pkt.type == PINGREQ) pings.push_back(&B.recv[ri]);
        if (K == 0) {
            if (!pings.empty()) fail("C12", "ping_with_keepalive_0", "connection " + std::to_string(ci) + ": PINGREQ sent although keep-alive is 0");
            continue;
        }
        if (nc.transport_fault || bc->hostile_touched || nc.blackhole) continue;
        // how long did the client use this connection?
        ns_t alive_until = s.suffix_end_t; uint64_t alive_seq = s.suffix_end_seq;
        if (nc.client_closed && nc.client_close_time < alive_until) { alive_until = nc.client_close_time; alive_seq = nc.client_close_seq; }
        if (nc.dead && nc.t_dead < alive_until) { alive_until = nc.t_dead; alive_seq = nc.seq_dead; }
        if (nc.client_shutdown && nc.client_close_time < alive_until) { alive_until = nc.client_close_time; alive_seq = nc.client_close_seq; }
        // the client itself gives the connection up (DISCONNECT written: sentry, malformed packet, ...)
        for (int ri : recv_by_conn[ci]) {
            auto& r = B.recv[ri];
            if (r.decode_err.empty() && r.pkt.type == DISCONNECT && r.first_group) { auto& g = s.net.groups[r.first_group - 1]; if (g.t_start < alive_until) { alive_until = g.t_start; alive_seq = g.seq_start; } }
        }
        if (nc.broker_closed && nc.t_broker_closed && nc.t_broker_closed < alive_until) alive_until = nc.t_broker_closed;   // from then on the connection is going down
        for (auto& m : s.marks)
            if ((m.kind == MarkKind::cancel_client || m.kind == MarkKind::disconnect_init || m.kind == MarkKind::destroy || (m.kind == MarkKind::op_cancel && m.arg == 1)) &&
                m.seq > ca.delivered_seq && m.t < alive_until) { alive_until = m.t; alive_seq = m.seq; }
        {   // an async_disconnect that was initiated before this connection's CONNACK and is still going on (a terminal DISCONNECT
            // whose write failed is repeated on the next connection): nothing but the DISCONNECT may be written here (C09), no ping duty;
            // likewise a cancel()/destruction/terminal cancellation that fell into this connection's handshake
            bool going_down = false;
            for (auto& m : s.marks) {
                if (m.seq > ca.delivered_seq) continue;
                if (m.kind == MarkKind::disconnect_init && m.op >= 0 && m.op < (int)s.ops.size() &&
                    (s.ops[m.op].dones.empty() || s.ops[m.op].dones[0].seq > ca.delivered_seq)) going_down = true;
                if ((m.kind == MarkKind::cancel_client || m.kind == MarkKind::destroy || (m.kind == MarkKind::op_cancel && m.arg == 1)) && m.seq >= nc.seq_begin) going_down = true;
            }
            if (going_down) continue;
        }
        // a reconnect triggered on this connection (e.g. after a server DISCONNECT or FIN) ends its ping duty
        for (auto& c2 : s.net.conns) if (c2->id > (int)ci && c2->t_begin < alive_until) { alive_until = c2->t_begin; alive_seq = c2->seq_begin; }
        for (auto& r : s.resolver.log) if (r.seq > ca.delivered_seq && r.t < alive_until) { alive_until = r.t; alive_seq = r.seq; }
        if (nc.fin_arrived || bc->sent_disconnect) {
            // the client noticed the end of the connection at the latest when it read EOF
            for (auto& rr : s.net.reads) if (rr.conn == (int)ci && rr.end == sim::ReadRec::error && rr.t_end < alive_until) { alive_until = rr.t_end; alive_seq = rr.seq_end; }
        }
        ns_t slack = 1 * SEC + stall_between(ca.delivered_seq, alive_seq);
        // The client keeps one write outstanding per connection: while the transport has not completed a write
        // (send buffer full, completion handler late), nothing else - a PINGREQ included - can be handed over, and
        // the CONNACK is only processed once the write of the CONNECT/AUTH has completed. That waiting is transport
        // latency, not the client's: a deadline that falls into such a write moves to the end of that write.
        const ns_t NEVER = std::numeric_limits<ns_t>::max();
        auto blocked_until = [&](ns_t t) -> ns_t {
            for (auto& g2 : s.net.groups) if (g2.conn == (int)ci && g2.t_start <= t && (!g2.done || g2.t_done > t)) return g2.done ? g2.t_done : NEVER;
            return t;
        };
        ns_t base = blocked_until(ca.delivered_t);
        if (base == NEVER) continue;
        ns_t deadline = base + (ns_t)K * SEC + slack;
        size_t i = 0;
        while (deadline < alive_until) {
            { ns_t b = blocked_until(deadline); if (b == NEVER) break; if (b > deadline) { deadline = b; if (deadline >= alive_until) break; } }
            if (i >= pings.size()) {
                // bytes the client handed to the transport in time but which never reached the broker (connection torn
                // down while they were in flight) cannot be inspected: no verdict
                size_t got = 0; for (int ri : recv_by_conn[ci]) got = std::max(got, B.recv[ri].off_end);
                bool unseen = false;
                for (auto& g2 : s.net.groups) if (g2.conn == (int)ci && g2.t_start <= deadline && g2.off_end > got) unseen = true;
                if (unseen) break;
                fail("C12", "pingreq_missing", "connection " + std::to_string(ci) + " (K=" + std::to_string(K) + "): no PINGREQ handed to the transport by t=" +
                     std::to_string(deadline / 1000000) + " ms (" + (i ? "previous PINGREQ" : "CONNACK") + " + K + slack), connection in use until t=" + std::to_string(alive_until / 1000000) + " ms");
                break;
            }
            auto* p = pings[i];
            if (!p->first_group) break;
            auto& g = s.net.groups[p->first_group - 1];
            if (g.t_start > deadline) {
                fail("C12", "pingreq_late", "connection " + std::to_string(ci) + " (K=" + std::to_string(K) + "): PINGREQ #" + std::to_string(i + 1) + " handed to the transport at t=" +
                     std::to_string(g.t_start / 1000000) + " ms, deadline " + std::to_string(deadline / 1000000) + " ms");
                break;
            }
            if (!g.done) break;
            deadline = g.t_done + (ns_t)K * SEC + slack;
            ++i;
        }
    }
}

// ------------------------------------------------------------------ C13
void Ctx::c13() {
    if (hostile_run) return;
    auto& B = s.broker;
    constexpr int SESSION_EXPIRED = 102;
    // receive completions in order
    struct Rc { uint64_t seq; bool expired; int msg; int svc_gen; };
    std::vector<Rc> rcs;
    for (auto& o : s.ops) {
        if (o.kind != OpKind::receive) continue;
        for (auto& d : o.dones) {
            bool ex = d.c.ec.value() == SESSION_EXPIRED && std::string(d.c.ec.category().name()) == "mqtt_client_error";
            if (d.c.ec && !ex) continue;
            rcs.push_back({d.seq, ex, ex ? -1 : msg_of_payload(d.c.payload), o.svc_gen});
        }
    }
    std::sort(rcs.begin(), rcs.end(), [](const Rc& a, const Rc& b) { return a.seq < b.seq; });
    // client-side view of successful CONNACKs, per service generation
    std::map<int, std::vector<const LogRec*>> connacks;    // svc_gen -> logs
    std::map<int, int> ambiguous;
    {
        for (auto& l : s.logs) {
            if (l.k != LogRec::connack || l.rc != 0) continue;
            // the authenticator rejected the server's final data right after this CONNACK: the attempt was abandoned, no reconnect ended here
            if (&l + 1 < s.logs.data() + s.logs.size() && (&l)[1].k == LogRec::auth_step && (&l)[1].step == 2 && (&l)[1].n == 1 && (&l)[1].ec >= 0) continue;
            // generations active when this CONNACK was processed
            std::vector<int> act;
            for (auto& [g, iv] : gen_iv) if (iv.first <= l.seq && iv.second >= l.seq) act.push_back(g);
            if (act.size() == 1) connacks[act[0]].push_back(&l);
            else for (int g : act) ambiguous[g]++;       // cannot be attributed: both generations become indefinite
        }
    }
    int final_gen = s.svc_gen - (s.teardown_done ? 1 : 0);
    for (auto& [gen, logs] : connacks) {
        bool subs = false;
        int expected = 0; std::vector<uint64_t> expect_at;
        for (auto* l : logs) {
            // subscribe successes of this generation completed before this CONNACK
            subs = false;
            uint64_t since = expect_at.empty() ? 0 : expect_at.back();
            for (auto& o : s.ops) {
                if (o.kind != OpKind::subscribe || o.svc_gen != gen || o.dones.empty()) continue;
                auto& d = o.dones[0];
                if (d.c.ec || d.seq > l->seq || d.seq < since) continue;
                for (auto rc : d.c.rcs) if (rc < 0x80) subs = true;
            }
            if (!l->session_present && subs) { ++expected; expect_at.push_back(l->seq); }
        }
        int observed = 0;
        for (auto& r : rcs) if (r.expired && r.svc_gen == gen) ++observed;
        bool drained = gen == final_gen && s.teardown_done && !s.budget_exhausted && s.running_at_drain;
        int amb = ambiguous.count(gen) ? ambiguous[gen] : 0;
        if (amb) drained = false;
        // a terminal per-operation cancellation closes the service; async_run on it resets the receive channel and drops what was buffered
        for (auto& m : s.marks) if (m.kind == MarkKind::op_cancel && m.arg == 1 && m.svc_gen == gen) drained = false;
        if (observed > expected + amb)
            fail("C13", "session_expired_too_often", "service generation " + std::to_string(gen) + ": " + std::to_string(observed) + " session_expired reports for " + std::to_string(expected) +
                 " reconnects with Session Present 0 after a successful subscribe");
        if (drained && observed < expected)
            fail("C13", "session_expired_missing", "service generation " + std::to_string(gen) + ": " + std::to_string(observed) + " session_expired reports but " + std::to_string(expected) +
                 " reconnects ended with Session Present 0 after a successful subscribe");
        // position: the k-th report comes before any message of the connection that lost the session (and later ones)
        size_t k = 0;
        for (auto& r : rcs) {
            if (r.svc_gen != gen) continue;
            if (r.expired) { ++k; continue; }
            if (k >= expect_at.size() || r.msg < 0) continue;
            // message delivered before the (k+1)-th report: it must not belong to the new session
            std::map<int, int>::iterator it;
            for (auto& m : B.msgs) {
                if (msg_of_payload(m.payload) != r.msg) continue;
                // first connection on which this message was completely delivered
                uint64_t first_deliv = 0;
                for (int si : m.publish_idx) if (B.sent[si].delivered_seq && (!first_deliv || B.sent[si].delivered_seq < first_deliv)) first_deliv = B.sent[si].delivered_seq;
                if (first_deliv && first_deliv > expect_at[k] && observed > (int)k)
                    fail("C13", "message_before_session_expired", "message " + std::to_string(m.id) + " of the new session (delivered at seq " + std::to_string(first_deliv) +
                         ") reached async_receive before the session_expired report for the CONNACK at seq " + std::to_string(expect_at[k]));
            }
        }
    }
}

} // namespace app
