#pragma once
#include "run.hpp"
namespace app {
// minimise `p` while a violation with signature `sig` ("Cxx/oracle") persists; writes the replay file
int shrink_main(const Plan& p, const std::string& sig, const std::string& out, int budget);
bool plan_from_replay(const std::string& text, Plan& out, std::string* err);
std::vector<Violation> run_diff(const Plan& base, Sim** keep, std::string* detail);
std::string replay_to_json(const Plan& p, const Violation& v, uint64_t trace_hash, int reruns, size_t orig_steps);
}
