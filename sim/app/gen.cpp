// Plan generator: swarm-style. One seed -> profile, configuration, step mix, faults.
#include "plan.hpp"

#include <algorithm>
#include <map>

namespace app {

using sim::Rng; using sim::MS; using sim::SEC; using sim::US;
using namespace mq;

namespace {

Prop P(uint8_t id, uint32_t n) { Prop p; p.id = id; p.num = n; return p; }
Prop PS(uint8_t id, std::string s) { Prop p; p.id = id; p.s1 = std::move(s); return p; }
Prop PU(std::string k, std::string v) { Prop p; p.id = P_USER; p.s1 = std::move(k); p.s2 = std::move(v); return p; }

std::string filler(Rng& r, size_t n) {
    std::string s; s.reserve(n);
    for (size_t i = 0; i < n; ++i) s.push_back((char)('a' + r.below(26)));
    return s;
}

// exactly n bytes; one call in four mixes in multi-byte UTF-8 characters (2-, 3- and 4-byte forms, incl. the edges next to the
// surrogate range, the non-character block U+FDD0..U+FDEF and the last valid code point; no control or non-characters).
// Code points whose low byte is 0xFE/0xFF (U+00FF, U+07FF, U+D7FF, ...) are avoided: the client's validator takes every one of
// them for a non-character (detail/utf8_mqtt.hpp tests c & 0xFE, not c & 0xFFFE) - an input-validation matter (C16, not applicable
// to this technique); the workload stays with strings that are unambiguously accepted.
std::string ufiller(Rng& r, size_t n) {
    if (n < 4 || !r.chance(0.25)) return filler(r, n);
    static const char* mb[] = {"\xC2\xA0", "\xC3\xA9", "\xDF\xBD", "\xE0\xA0\x80", "\xE2\x82\xAC", "\xED\x9F\xBB", "\xEE\x80\x80", "\xEF\xB7\x8F",
                               "\xEF\xB7\xB0", "\xEF\xBF\xBD", "\xF0\x90\x80\x80", "\xF0\x9F\x98\x80", "\xF4\x8F\xBF\xBD"};
    std::string s;
    while (s.size() < n) {
        if (n - s.size() >= 4 && r.chance(0.4)) s += mb[r.below(13)];
        else s.push_back((char)('a' + r.below(26)));
    }
    return s;
}

size_t biased_len(Rng& r) {
    auto k = r.below(100);
    if (k < 50) return r.below(24);
    if (k < 70) return (size_t)r.pick<int>({0, 1, 100, 110, 120, 127, 128, 129, 200});
    if (k < 85) return r.below(400);
    if (k < 95) return (size_t)r.pick<int>({16300, 16383, 16384, 16390, 2000, 5000});
    return (size_t)r.pick<int>({65535, 65536, 70000, 30000});
}

ns_t biased_delay(Rng& r, bool allow_long) {
    auto k = r.below(100);
    if (k < 40) return 0;
    if (k < 60) return r.range(1, 500 * US);
    if (k < 80) return r.range(1 * MS, 50 * MS);
    if (k < 92 || !allow_long) return r.range(50 * MS, 2 * SEC);
    return r.range(2 * SEC, 40 * SEC);
}

Props gen_user_props(Rng& r, int maxn) {
    Props p; int n = (int)r.below(maxn + 1);
    for (int i = 0; i < n; ++i) p.push_back(PU("k" + std::to_string(r.below(4)), ufiller(r, r.below(9))));
    return p;
}

Props gen_publish_props(Rng& r, bool allow_alias, uint16_t alias_max) {
    Props p;
    if (r.chance(0.5)) return p;
    if (r.chance(0.3)) p.push_back(P(P_PAYLOAD_FORMAT, (uint32_t)r.below(2)));
    if (r.chance(0.3)) p.push_back(P(P_MSG_EXPIRY, (uint32_t)r.pick<int64_t>({0, 1, 60, 65536, 4294967295ll})));
    if (r.chance(0.3)) p.push_back(PS(P_CONTENT_TYPE, "ct/" + ufiller(r, r.below(8))));
    if (r.chance(0.3)) p.push_back(PS(P_RESPONSE_TOPIC, "r/" + ufiller(r, 1 + r.below(8))));
    if (r.chance(0.3)) { std::string b; size_t n = r.below(10); for (size_t i = 0; i < n; ++i) b.push_back((char)r.below(256)); p.push_back(PS(P_CORRELATION, b)); }
    if (allow_alias && alias_max && r.chance(0.3)) p.push_back(P(P_TOPIC_ALIAS, (uint32_t)r.range(1, alias_max)));
    for (auto& u : gen_user_props(r, 3)) p.push_back(u);
    return p;
}

struct W { SK k; double w; };

} // namespace

Plan generate(uint64_t seed, const std::string& focus) {
    Plan pl; pl.seed = seed;
    Rng r = Rng::keyed(seed, "gen");
    Knobs& k = pl.knobs;
    k.focus = focus;

    // ---------------------------------------------------------------- profile
    auto pick_profile = [&]() -> std::string {
        auto x = r.below(100);
        if (focus == "C19") return "hostile";
        if (focus == "C15" || focus == "C17" || focus == "C18") return x < 50 ? "clean" : "quirky";
        if (focus == "C02" || focus == "C04" || focus == "C13" || focus == "C03") return x < 10 ? "clean" : x < 60 ? "faulty" : "quirky";
        if (focus == "C12") return x < 40 ? "clean" : x < 70 ? "faulty" : "quirky";
        return x < 20 ? "clean" : x < 65 ? "faulty" : "quirky";
    };
    k.profile = pick_profile();
    bool clean = k.profile == "clean", faulty = k.profile == "faulty", quirky = k.profile == "quirky", hostile = k.profile == "hostile";
    k.variant = (int)r.below(2);
    k.event_first_p = r.pick<double>({0.1, 0.3, 0.5, 0.5, 0.7, 0.9});

    // ---------------------------------------------------------------- hosts
    int nh = (int)r.pick<int>({1, 1, 1, 2, 2, 3, 4});
    if (focus == "C10" || focus == "C11") nh = (int)r.range(1, 4);
    std::string brokers;
    bool any_alive = false;
    for (int h = 0; h < nh; ++h) {
        HostCfg hc; hc.name = "h" + std::to_string(h);
        hc.port = r.chance(0.5) ? 1883 : (int)r.range(1024, 65535);
        hc.n_endpoints = (int)r.pick<int>({1, 1, 1, 2, 3});
        if (!clean && r.chance(0.3)) hc.dead_mask = (int)r.below(1u << hc.n_endpoints);
        if (hc.dead_mask != (1 << hc.n_endpoints) - 1) any_alive = true;
        k.hosts.push_back(hc);
    }
    if (!any_alive) k.hosts[r.below(k.hosts.size())].dead_mask = 0;
    k.client.default_port = 1883;
    for (int h = 0; h < nh; ++h) {
        if (h) brokers += r.chance(0.5) ? "," : " , ";
        brokers += k.hosts[h].name;
        if (k.hosts[h].port != 1883 || r.chance(0.3)) brokers += ":" + std::to_string(k.hosts[h].port);
        if (r.chance(0.2)) brokers += "/path" + std::to_string(h);
    }
    k.client.brokers = brokers;

    // ---------------------------------------------------------------- client configuration
    auto& cc = k.client;
    cc.client_id = r.chance(0.2) ? "" : "cid-" + ufiller(r, r.below(12));
    if (r.chance(0.4)) cc.username = "user" + ufiller(r, r.below(7));
    if (r.chance(0.4)) cc.password = "pw" + filler(r, r.below(5));
    if (r.chance(0.3)) {
        Will wl; wl.topic = "will/" + ufiller(r, 3 + r.below(4)); wl.payload = filler(r, r.below(20)); wl.qos = (uint8_t)r.below(3); wl.retain = r.chance(0.3);
        if (r.chance(0.5)) { wl.props.push_back(P(P_WILL_DELAY, (uint32_t)r.below(100))); if (r.chance(0.5)) wl.props.push_back(PS(P_CONTENT_TYPE, "x")); for (auto& u : gen_user_props(r, 2)) wl.props.push_back(u); }
        cc.will = wl;
    }
    {
        int ka = (int)r.pick<int>({-1, -1, 0, 1, 2, 5, 60, 60, 65535});
        if (focus == "C12") ka = (int)r.pick<int>({0, 1, 2, 5, 60, 65535});
        if (ka >= 0) cc.keep_alive = (uint16_t)ka;
    }
    if (r.chance(0.5)) {
        if (r.chance(0.6)) cc.connect_props.push_back(P(P_SESSION_EXPIRY, (uint32_t)r.pick<int64_t>({0, 60, 3600, 4294967295ll})));
        if (r.chance(0.2)) cc.connect_props.push_back(P(P_RECV_MAX, (uint32_t)r.pick<int>({1, 2, 5, 100, 65535})));
        if (r.chance(0.3) || focus == "C19") cc.connect_props.push_back(P(P_MAX_PACKET, (uint32_t)(hostile ? r.pick<int>({64, 80, 100, 128, 256, 512}) : r.pick<int>({256, 512, 1024, 65536, 100000}))));
        if (r.chance(0.2)) cc.connect_props.push_back(P(P_TOPIC_ALIAS_MAX, (uint32_t)r.pick<int>({0, 5, 65535})));
        if (r.chance(0.2)) cc.connect_props.push_back(P(P_REQ_RESPONSE, (uint32_t)r.below(2)));
        if (r.chance(0.2)) cc.connect_props.push_back(P(P_REQ_PROBLEM, (uint32_t)r.below(2)));
        for (auto& u : gen_user_props(r, 2)) cc.connect_props.push_back(u);
    }
    if (r.chance(focus == "C10" ? 0.4 : 0.12)) { cc.use_authenticator = true; cc.auth_method = "m" + filler(r, 2); k.broker.auth_rounds = (int)r.below(3); cc.auth_posted = r.chance(0.5); }

    // ---------------------------------------------------------------- network
    auto& nk = k.net;
    nk.lat_max = r.pick<ns_t>({0, 100 * US, 2 * MS, 2 * MS, 20 * MS, 200 * MS});
    nk.lat_min = 0;
    // completion of a write may lag far behind the delivery of its bytes (full send buffer): replies then overtake
    // the write completion and everything queued behind the write piles up
    nk.write_done_max = r.pick<ns_t>({0, 1 * MS, 1 * MS, 10 * MS, 100 * MS, 100 * MS, 1500 * MS, 1 * MS});
    nk.write_done_zero_p = r.pick<double>({0.0, 0.3, 0.6, 0.9, 1.0});
    nk.write_block_p = r.pick<double>({0.0, 0.3, 0.6, 1.0});
    nk.short_write_p = r.pick<double>({0.0, 0.0, 0.1, 0.3});
    nk.seg_split_p = r.pick<double>({0.0, 0.2, 0.5});
    nk.coalesce_b2c = r.chance(0.3);
    nk.chunk_mode = (int)r.pick<int>({-1, -1, 0, 1, 2});
    nk.connect_lat_max = r.pick<ns_t>({0, 5 * MS, 20 * MS, 500 * MS});
    k.resolve_delay_max = r.pick<ns_t>({0, 1 * MS, 5 * MS, 300 * MS});
    k.shutdown_delay_max = clean ? r.pick<ns_t>({0, 0, 10 * MS}) : r.pick<ns_t>({0, 10 * MS, 2 * SEC, 7 * SEC});

    // ---------------------------------------------------------------- broker
    auto& bk = k.broker;
    bk.ack_delay_max = r.pick<ns_t>({0, 1 * MS, 5 * MS, 50 * MS, 1 * SEC});
    bk.ack_zero_p = r.pick<double>({0.0, 0.4, 0.8, 1.0});
    bk.short_form_p = r.pick<double>({0.0, 0.3, 0.7});
    if (quirky || focus == "C18" || focus == "C17" || focus == "C01" || focus == "C14") {
        bk.ack_err_p = r.pick<double>({0.0, 0.1, 0.3});
        bk.ack_props_p = r.pick<double>({0.0, 0.3, 0.7});
    }
    if (quirky && (focus == "C01" || focus == "C14" || r.chance(0.2))) bk.dup_ack_p = r.pick<double>({0.0, 0.1, 0.3});
    if (quirky) { bk.session_loss_p = r.pick<double>({0.0, 0.2, 0.5, 1.0}); bk.caps_change = r.chance(0.3); }
    if (focus == "C13") bk.session_loss_p = r.pick<double>({0.2, 0.5, 0.8, 1.0});
    if (faulty && r.chance(0.3)) bk.session_loss_p = r.pick<double>({0.1, 0.3});
    {
        auto& c = bk.base_caps;
        bool many = focus == "C15" || focus == "C18" || r.chance(0.2);
        double p = many ? 0.5 : 0.1;
        if (r.chance(focus == "C07" || focus == "C06" ? 0.9 : (focus == "C01" && bk.dup_ack_p > 0) ? 0.7 : 0.3)) c.recv_max = (uint16_t)r.pick<int>({1, 1, 2, 2, 3, 5, 10, 65535});
        if (r.chance(p)) c.max_qos = (uint8_t)r.below(2);
        if (r.chance(p)) c.retain_avail = (uint8_t)r.below(2);
        if (r.chance(p)) c.max_packet = (uint32_t)r.pick<int>({40, 64, 100, 128, 129, 200, 16384, 70000});
        if (r.chance(p)) c.topic_alias_max = (uint16_t)r.pick<int>({0, 1, 5, 65535});
        if (r.chance(p)) c.wildcard = (uint8_t)r.below(2);
        if (r.chance(p)) c.subid = (uint8_t)r.below(2);
        if (r.chance(p)) c.shared = (uint8_t)r.below(2);
        if (r.chance(focus == "C12" ? 0.4 : 0.1)) c.server_ka = (uint16_t)r.pick<int>({0, 1, 2, 5, 60});
        if (r.chance(p)) c.session_expiry = (uint32_t)r.pick<int>({0, 60, 3600});
        if (many) {
            if (r.chance(0.3)) c.assigned_cid = "assigned-" + ufiller(r, 4 + r.below(3));
            if (r.chance(0.3)) c.reason_string = "rs-" + ufiller(r, 4 + r.below(3));
            if (r.chance(0.3)) c.response_info = "ri/" + ufiller(r, 4 + r.below(3));
            if (r.chance(0.3)) c.server_ref = "srv-" + filler(r, 4);
            int nu = (int)r.below(3); for (int i = 0; i < nu; ++i) c.user.push_back({"ck" + std::to_string(i), ufiller(r, 3 + r.below(4))});
        }
        // a long CONNACK: its Remaining Length needs two (>= 128) or three (>= 16384) bytes, so the 5 bytes the client reads first
        // end inside the length field or right behind it; only when the client's own Maximum Packet Size allows such a packet
        if (r.chance(focus == "C10" || focus == "C18" || focus == "C19" ? 0.3 : 0.1)) {
            size_t len = (size_t)r.pick<int>({100, 118, 119, 120, 121, 122, 123, 124, 125, 126, 127, 128, 200, 16370, 16380, 16390});
            uint32_t client_limit = 65536;
            for (auto& q : cc.connect_props) if (q.id == P_MAX_PACKET) client_limit = q.num;
            if (len + 64 < client_limit) c.reason_string = "rs-" + ufiller(r, len);
        }
    }
    if (hostile) { bk.hostile = true; }
    k.healed_suffix = 200 * SEC;

    // ---------------------------------------------------------------- steps
    std::vector<W> weights;
    auto add = [&](SK kind, double w) { weights.push_back({kind, w}); };
    // application traffic
    add(SK::Publish, 30); add(SK::Subscribe, 6); add(SK::Unsubscribe, 4); add(SK::Receive, 5);
    add(SK::BrokerPublish, 10); add(SK::Wait, 6);
    add(SK::CancelOp, 3); add(SK::ReAuth, cc.use_authenticator ? 2 : 0);
    if (!clean) {
        add(SK::FByteCut, 6); add(SK::FProto, 8); add(SK::FWriteErr, 3); add(SK::FConnect, 2); add(SK::FResolve, 1);
        add(SK::FHandshake, 2); add(SK::FStall, 1); add(SK::FClockJump, 1); add(SK::BrokerRestart, 1);
        add(SK::BrokerDisconnect, 2); add(SK::FRaceTimer, 2); add(SK::FShutdownDelay, 1); add(SK::FPingSilent, 1);
        add(SK::FSessionPresent, quirky ? 3 : 1);
        add(SK::CancelClient, 1); add(SK::Disconnect, 1); add(SK::Run, 1);
    }
    if (hostile) add(SK::FHostileWindow, 4);
    auto boost_w = [&](SK kind, double f) { for (auto& w : weights) if (w.k == kind) w.w *= f; };
    if (focus == "C04") { boost_w(SK::BrokerPublish, 4); boost_w(SK::Receive, 3); boost_w(SK::Publish, 0.3); }
    if (focus == "C05" || focus == "C09") { boost_w(SK::CancelOp, 4); boost_w(SK::CancelClient, 5); boost_w(SK::Disconnect, 6); boost_w(SK::Run, 4);
        if (clean) { add(SK::CancelClient, 3); add(SK::Disconnect, 4); add(SK::Run, 3); } add(SK::Destroy, 2); add(SK::Recreate, 2); }
    if (focus == "C07" || focus == "C06") { boost_w(SK::Publish, 2); boost_w(SK::CancelOp, 3); }
    if (focus == "C10" || focus == "C11") { boost_w(SK::FConnect, 4); boost_w(SK::FHandshake, 4); boost_w(SK::FResolve, 4); boost_w(SK::FByteCut, 2); }
    if (focus == "C12") { boost_w(SK::Wait, 6); boost_w(SK::FPingSilent, 6); boost_w(SK::Publish, 0.5); boost_w(SK::FRaceTimer, 3); }
    if (focus == "C13") { boost_w(SK::Subscribe, 4); boost_w(SK::FSessionPresent, 5); boost_w(SK::FByteCut, 2); boost_w(SK::Receive, 2); boost_w(SK::BrokerPublish, 2); }
    if (focus == "C14") { boost_w(SK::Subscribe, 5); boost_w(SK::Unsubscribe, 5); boost_w(SK::Publish, 0.3); boost_w(SK::FProto, 2); if (clean) add(SK::FProto, 6); }
    if (focus == "C03") { boost_w(SK::FProto, 2); boost_w(SK::FByteCut, 2); }
    double total = 0; for (auto& w : weights) total += w.w;

    int nsteps = (int)r.pick<int>({3, 5, 8, 12, 20, 30, 40});
    if (focus == "C12") nsteps = (int)r.pick<int>({3, 5, 8, 12});
    int next_id = 1;
    auto push = [&](Step s) { s.id = next_id++; pl.steps.push_back(std::move(s)); };

    // start: usually Run first, sometimes traffic before Run, rarely never
    bool run_first = r.chance(0.85);
    if (run_first) { Step s; s.kind = SK::Run; s.c = r.chance(0.3); push(s); }
    uint16_t alias_max = bk.base_caps.topic_alias_max.value_or(0);
    bool forbid_ok = focus == "C15" || r.chance(0.15);   // generate capability-forbidden requests?
    int max_qos = (bk.base_caps.max_qos && !forbid_ok) ? *bk.base_caps.max_qos : 2;
    bool retain_ok = !(bk.base_caps.retain_avail && *bk.base_caps.retain_avail == 0) || forbid_ok;
    bool run_pending = !run_first;
    bool force_broker_publish = false;

    for (int i = 0; i < nsteps; ++i) {
        double x = (r.next() >> 11) * (1.0 / 9007199254740992.0) * total;
        SK kind = weights.back().k;
        for (auto& w : weights) { if (x < w.w) { kind = w.k; break; } x -= w.w; }
        Step s; s.kind = kind;
        s.delay = biased_delay(r, focus == "C12" || r.chance(0.3));
        if (run_pending && r.chance(0.3)) { kind = s.kind = SK::Run; run_pending = false; }
        // "the next bytes from the broker arrive on a timer deadline" is followed at once by a message from the broker
        if (force_broker_publish) { kind = s.kind = SK::BrokerPublish; s.delay = 0; force_broker_publish = false; }
        switch (kind) {
        case SK::Run: s.c = r.chance(0.3); break;
        case SK::Publish: {
            s.a = (int)std::min<int64_t>(r.pick<int>({0, 1, 1, 2, 2}), forbid_ok ? 2 : max_qos);
            if (focus == "C07" || focus == "C06" || focus == "C03") s.a = (int)r.pick<int>({0, 1, 1, 2, 2, 2});
            if (!forbid_ok) s.a = std::min(s.a, max_qos);
            s.b = retain_ok && r.chance(0.2);
            s.c = r.chance(focus == "C07" || focus == "C05" ? 0.5 : 0.2);
            s.s1 = "t/" + std::to_string(next_id);
            s.s2 = std::to_string(next_id) + ":" + filler(r, biased_len(r));
            if (s.a > 0 && r.chance(bk.dup_ack_p > 0 ? 0.4 : 0.15)) s.d = (int)r.range(1, 3);      // chained from the completion handler
            s.props = gen_publish_props(r, true, forbid_ok ? (uint16_t)(alias_max + 1) : alias_max);
            if (forbid_ok && r.chance(0.2) && !find_prop(s.props, P_TOPIC_ALIAS)) s.props.push_back(P(P_TOPIC_ALIAS, (uint32_t)alias_max + 1));
            break;
        }
        case SK::Subscribe: {
            int n = (int)r.pick<int>({1, 1, 2, 3, 5});
            bool wild_ok = !(bk.base_caps.wildcard && *bk.base_caps.wildcard == 0) || forbid_ok;
            bool shared_ok = !(bk.base_caps.shared && *bk.base_caps.shared == 0) || forbid_ok;
            bool subid_ok = !(bk.base_caps.subid && *bk.base_caps.subid == 0) || forbid_ok;
            for (int j = 0; j < n; ++j) {
                SubTopic t;
                std::string base = "f/" + std::to_string(next_id) + "/" + std::to_string(j);
                auto v = r.below(10);
                if (v < 6) t.filter = base;
                else if (v < 8 && wild_ok) t.filter = base + (r.chance(0.5) ? "/+" : "/#");
                else if (v < 9 && shared_ok) t.filter = "$share/g" + std::to_string(r.below(3)) + "/" + base;
                else t.filter = base;
                t.opts = (uint8_t)(r.below(3) | (r.below(2) << 2) | (r.below(2) << 3) | (r.below(3) << 4));
                if (t.filter.rfind("$share/", 0) == 0) t.opts &= ~0x04;   // no-local on a shared subscription is a protocol error
                s.subs.push_back(t);
            }
            if (subid_ok && r.chance(0.3)) s.props.push_back(P(P_SUB_ID, (uint32_t)r.pick<int>({1, 127, 128, 16384, 268435455})));
            for (auto& u : gen_user_props(r, 2)) s.props.push_back(u);
            s.c = r.chance(0.2);
            break;
        }
        case SK::Unsubscribe: {
            int n = (int)r.pick<int>({1, 1, 2, 3});
            for (int j = 0; j < n; ++j) s.topics.push_back("f/" + std::to_string(r.chance(0.5) ? next_id : (int)r.range(1, std::max(1, next_id))) + "/" + std::to_string(j) + "/u" + std::to_string(next_id));
            for (auto& u : gen_user_props(r, 2)) s.props.push_back(u);
            s.c = r.chance(0.2);
            break;
        }
        case SK::Receive: s.a = (int)r.pick<int>({1, 1, 2, 5}); s.c = r.chance(0.2); break;
        case SK::CancelOp: s.a = (int)r.below(1000); s.b = (int)r.pick<int>({0, 1, 2, 2, 2}); break;
        case SK::Disconnect: {
            s.a = (int)r.pick<int>({0x00, 0x00, 0x04});
            if (r.chance(0.4)) { if (r.chance(0.5)) s.props.push_back(PS(P_REASON_STRING, "bye" + ufiller(r, biased_len(r) % 300))); if (r.chance(0.3)) s.props.push_back(P(P_SESSION_EXPIRY, (uint32_t)r.below(100))); for (auto& u : gen_user_props(r, 2)) s.props.push_back(u); }
            // a DISCONNECT on the boundary of the broker's Maximum Packet Size (properties must be dropped iff the packet exceeds it):
            // one user property sized so that the packet is a few bytes below / exactly at / above the limit, with or without the rest
            if (bk.base_caps.max_packet && *bk.base_caps.max_packet <= 200 && r.chance(0.5)) {
                if (r.chance(0.5)) s.props.clear();
                int64_t base = 4 + 7; for (auto& q : s.props) base += 3 + (int64_t)q.s1.size() + (q.id == P_USER ? 2 + (int64_t)q.s2.size() : 0) + (q.id == P_SESSION_EXPIRY ? 2 : 0);
                int64_t vlen = (int64_t)*bk.base_caps.max_packet - base + r.pick<int>({-3, -2, -1, 0, 0, 1, 2, 12});
                if (vlen > 0) s.props.push_back(PU("k0", filler(r, (size_t)vlen)));
            }
            s.c = r.chance(0.2);
            run_pending = true;
            break;
        }
        case SK::CancelClient: run_pending = true; break;
        case SK::BrokerPublish: {
            s.a = (int)r.pick<int>({0, 1, 1, 2, 2});
            s.b = r.chance(0.1);
            s.s1 = "b/" + std::to_string(next_id);
            size_t len = biased_len(r);
            if (len > 2000 && focus != "C04" && focus != "C18") len %= 300;
            s.s2 = "m" + std::to_string(next_id) + ":" + filler(r, len);
            s.props = gen_publish_props(r, false, 0);
            if (r.chance(0.2)) { int n = 1 + (int)r.below(3); for (int j = 0; j < n; ++j) s.props.push_back(P(P_SUB_ID, (uint32_t)r.pick<int>({1, 5, 128, 20000, 268435455}))); }
            break;
        }
        case SK::BrokerDisconnect:
            s.a = (int)r.pick<int>({0x00, 0x80, 0x81, 0x82, 0x83, 0x87, 0x89, 0x8b, 0x8d, 0x8e, 0x93, 0x94, 0x95, 0x96, 0x97, 0x98, 0x9c, 0x9d, 0xa0, 0xa1, 0xa2});
            if (r.chance(0.4)) { s.props.push_back(PS(P_REASON_STRING, "srv" + ufiller(r, 3 + r.below(4)))); if (r.chance(0.3)) s.props.push_back(PS(P_SERVER_REF, "other")); }
            break;
        case SK::BrokerRestart: s.a = r.chance(0.5); break;
        case SK::FByteCut:
            s.a = (int)r.below(2); s.b = (int)r.pick<int>({1, 1, 2, 3, 4, 5, 6, 8, 12, 20, 40, 100});
            s.c = (int)r.pick<int>({0, 0, 0, 1, 1, 2}); s.d = r.chance(0.5);
            break;
        case SK::FProto: {
            s.a = (int)r.below(2);
            if (s.a == 0) s.b = (int)r.pick<int>({0, CONNECT, PUBLISH, PUBLISH, PUBLISH, PUBREL, PUBREL, SUBSCRIBE, UNSUBSCRIBE, PINGREQ, PUBACK, PUBREC, PUBCOMP, DISCONNECT});
            else s.b = (int)r.pick<int>({0, CONNACK, PUBACK, PUBACK, PUBREC, PUBREC, PUBCOMP, PUBCOMP, SUBACK, UNSUBACK, PUBLISH, PUBREL, PINGRESP});
            s.c = (int)r.pick<int>({0, 0, 0, 1, 2, 3});
            // actions: rst, rst_lose, fin, blackhole, withhold, delay, disconnect, cut_emit, write_fault
            s.d = (int)r.pick<int>({0, 1, 2, 3, 4, 4, 5, 6, 7, 8});
            if (s.d == (int)bk::PfAct::cut_emit && s.a == 0) s.d = 0;
            if (s.d == (int)bk::PfAct::delay) s.t = r.pick<ns_t>({10 * MS, 1 * SEC, 19 * SEC, 21 * SEC, 30 * SEC});
            if (s.d == (int)bk::PfAct::disconnect) s.s1 = std::to_string(r.pick<int>({0x80, 0x81, 0x8d, 0x8e, 0x97}));
            if (s.d == (int)bk::PfAct::cut_emit) s.s1 = std::to_string(r.pick<int>({1, 2, 3, 4}));
            if (s.d == (int)bk::PfAct::write_fault) s.s1 = std::to_string(r.pick<int>({0, 300, 999, 1000}));
            // targeted malformed acknowledgements (wrong reason-code count, inadmissible reason code) in otherwise legitimate runs
            if ((focus == "C14" || focus == "C01" || focus == "C20") && r.chance(0.5)) {
                s.a = 1;
                s.b = focus == "C14" ? (int)r.pick<int>({SUBACK, SUBACK, UNSUBACK}) : (int)r.pick<int>({PUBACK, PUBREC, PUBCOMP, SUBACK, UNSUBACK});
                s.d = (int)bk::PfAct::hostile_reply;
                s.s2 = std::to_string(r.pick<int>({12, 13, 13}));
                s.s1.clear(); s.t = 0;
            }
            break;
        }
        case SK::FWriteErr: s.a = (int)r.below(3); s.b = (int)r.pick<int>({0, 0, 200, 500, 900, 1000, 1000}); s.c = (int)r.below(4); break;
        case SK::FConnect: s.a = (int)r.pick<int>({1, 1, 2, 3}); s.b = (int)r.pick<int>({1, 1, 2, 3, 6}); break;
        case SK::FResolve: s.a = (int)r.below(3); s.b = (int)r.pick<int>({1, 1, 2}); break;
        case SK::FHandshake: s.a = (int)r.range(1, 6); s.b = 0; s.c = (int)r.pick<int>({1, 1, 2, 4});
            if (cc.use_authenticator && r.chance(0.35)) { s.a = 0; s.c = 1; s.d = 1 + (int)r.below(3); }   // the authenticator fails at one of its steps
            break;
        case SK::FSessionPresent: s.a = (int)r.pick<int>({0, 0, 1}); s.b = (int)r.pick<int>({1, 1, 2}); break;
        case SK::FStall: s.t = r.pick<ns_t>({1 * MS, 100 * MS, 2 * SEC, 6 * SEC, 25 * SEC});
            if (r.chance(0.35)) { s.b = 1; s.t = r.pick<ns_t>({100 * MS, 600 * MS, 1600 * MS, 3200 * MS, 8 * SEC}); force_broker_publish = r.chance(0.7); if (force_broker_publish && i + 1 >= nsteps) ++nsteps; }
            break;
        case SK::FClockJump: s.t = r.pick<ns_t>({-3600 * SEC, -30 * SEC, -1 * SEC, 1 * SEC, 19 * SEC, 30 * SEC, 3600 * SEC}); break;
        case SK::FPingSilent: s.a = 1; break;
        case SK::FHostileWindow: s.a = r.chance(0.8); s.b = (int)r.pick<int>({100, 300, 600, 1000}); break;
        case SK::FShutdownDelay: s.t = r.pick<ns_t>({0, 100 * MS, 4900 * MS, 5 * SEC, 5100 * MS, 7 * SEC}); break;
        case SK::FRaceTimer: s.a = (int)r.below(3); s.b = r.chance(focus == "C12" ? 0.6 : 0.3); if (s.b) { force_broker_publish = true; if (i + 1 >= nsteps) ++nsteps; } break;
        default: break;
        }
        push(std::move(s));
    }
    if (hostile) {
        // make sure a hostile window opens early
        Step s; s.kind = SK::FHostileWindow; s.a = 1; s.b = (int)r.pick<int>({200, 500, 1000}); s.id = next_id++;
        pl.steps.insert(pl.steps.begin() + std::min<size_t>(pl.steps.size(), 1 + r.below(3)), s);
        if (r.chance(0.5)) { Step h; h.kind = SK::FHandshake; h.a = 2; h.c = (int)r.pick<int>({1, 2, 3}); h.id = next_id++; pl.steps.insert(pl.steps.begin(), h); }
    }
    return pl;
}

Plan generate_diff(uint64_t seed) {
    Plan pl; pl.seed = seed;
    Rng r = Rng::keyed(seed, "gendiff");
    Knobs& k = pl.knobs;
    k.profile = "hostile"; k.focus = "C19diff"; k.variant = (int)r.below(2);
    k.event_first_p = 0.0;                 // handlers first: the client digests everything it has before the next event
    k.final_heal = false; k.resolve_delay_max = 0; k.shutdown_delay_max = 0;
    HostCfg h; h.name = "h0"; k.hosts.push_back(h);
    k.client.brokers = "h0"; k.client.client_id = "diff";
    k.client.keep_alive = 0;
    if (r.chance(0.7)) { Prop p; p.id = P_MAX_PACKET; p.num = (uint32_t)r.pick<int>({64, 100, 128, 256, 1024}); k.client.connect_props.push_back(p); }
    auto& nk = k.net;
    nk.lat_min = nk.lat_max = 0; nk.write_done_max = 0; nk.write_done_zero_p = 1.0; nk.short_write_p = 0; nk.seg_split_p = 0; nk.connect_lat_max = 0;
    nk.chunk_mode = 0;
    nk.coalesce_b2c = true;                // the whole burst travels in one segment
    auto& bk = k.broker;
    bk.ack_delay_max = 0; bk.ack_zero_p = 1.0; bk.short_form_p = 0.3; bk.hostile = true;
    int id = 1;
    auto push = [&](Step s) { s.id = id++; pl.steps.push_back(std::move(s)); };
    { Step s; s.kind = SK::Run; push(s); }
    { Step s; s.kind = SK::Receive; s.a = 60; s.delay = 100 * MS; push(s); }
    int bursts = (int)r.range(1, 3);
    for (int b = 0; b < bursts; ++b) {
        { Step s; s.kind = SK::FHostileWindow; s.a = 1; s.b = (int)r.pick<int>({100, 200, 400}); s.delay = 50 * MS; push(s); }
        { Step s; s.kind = SK::BrokerBurst; s.a = (int)r.range(2, 12); s.b = (int)r.pick<int>({4, 20, 60, 150}); s.c = r.chance(0.5); s.delay = 1 * MS; push(s); }
        { Step s; s.kind = SK::FHostileWindow; s.a = 0; s.delay = 1 * MS; push(s); }
    }
    { Step s; s.kind = SK::Wait; s.delay = 2 * SEC; push(s); }
    return pl;
}

Plan generate_exhaust(uint64_t seed) {
    Plan pl; pl.seed = seed;
    Rng r = Rng::keyed(seed, "genexhaust");
    Knobs& k = pl.knobs;
    k.profile = "clean"; k.focus = "C08x"; k.variant = (int)r.below(2);
    k.max_steps = 20000000;
    HostCfg h; h.name = "h0"; k.hosts.push_back(h);
    k.client.brokers = "h0"; k.client.client_id = "exhaust"; k.client.keep_alive = 0;
    auto& nk = k.net; nk.lat_max = 1 * MS; nk.short_write_p = 0; nk.seg_split_p = 0;
    auto& bk = k.broker; bk.ack_delay_max = 0; bk.ack_zero_p = 1.0;
    bool leak_mode = seed % 2 == 1;
    int id = 1;
    auto push = [&](Step s) { s.id = id++; pl.steps.push_back(std::move(s)); };
    if (leak_mode) bk.base_caps.max_packet = 200;      // requests with a 300 byte payload are rejected locally
    { Step s; s.kind = SK::Run; push(s); }
    if (leak_mode) {
        // 70000 rejected requests must not consume packet identifiers: a valid QoS 1 publish afterwards is accepted
        { Step s; s.kind = SK::PublishBurst; s.a = 70000; s.b = (int)r.range(1, 2); s.c = 1; s.d = 300; s.delay = 1 * SEC; push(s); }
        { Step s; s.kind = SK::Publish; s.a = 1; s.s1 = "t/" + std::to_string(id); s.s2 = std::to_string(id) + ":ok"; s.delay = 10 * MS; push(s); }
    } else {
        // the broker withholds every acknowledgement; 65535 publishes are accepted, the rest is refused with pid_overrun
        { Step s; s.kind = SK::FPingSilent; s.a = 1; s.delay = 1 * SEC; push(s); }
        { Step s; s.kind = SK::PublishBurst; s.a = 65535 + (int)r.range(1, 40); s.b = 1; s.delay = 10 * MS; push(s); }
        { Step s; s.kind = SK::Wait; s.delay = 1 * SEC; push(s); }
        // the broker answers again, the sentry gives the connection up, everything is retransmitted and acknowledged: identifiers
        // are free again and further requests must be accepted (pid_overrun only while all 65535 are in use)
        { Step s; s.kind = SK::Heal; s.delay = 1 * SEC; push(s); }
        for (int i = 0; i < 3; ++i) { Step s; s.kind = SK::Publish; s.a = (int)r.range(1, 2); s.s1 = "t/" + std::to_string(id); s.s2 = std::to_string(id) + ":after"; s.delay = i ? 10 * MS : 90 * SEC; push(s); }
    }
    return pl;
}

Plan generate_serialwrap(uint64_t seed) {
    Plan pl; pl.seed = seed;
    Rng r = Rng::keyed(seed, "genserialwrap");
    Knobs& k = pl.knobs;
    k.profile = "clean"; k.focus = "C06x"; k.variant = (int)r.below(2);
    k.max_steps = 20000000;
    HostCfg h; h.name = "h0"; k.hosts.push_back(h);
    k.client.brokers = "h0"; k.client.client_id = "serialwrap"; k.client.keep_alive = 0;
    auto& nk = k.net; nk.lat_max = 1 * MS; nk.short_write_p = 0; nk.seg_split_p = 0;
    auto& bk = k.broker; bk.ack_delay_max = 0; bk.ack_zero_p = 1.0;
    static const int counts[] = {32767, 32768, 33000, 65536};
    int n = counts[seed % 4] + (int)r.below(3) - 1;
    int id = 1;
    auto push = [&](Step s) { s.id = id++; pl.steps.push_back(std::move(s)); };
    auto pub = [&](int qos, ns_t delay) { Step s; s.kind = SK::Publish; s.a = qos; s.s1 = "t/" + std::to_string(id); s.s2 = std::to_string(id) + ":"; s.delay = delay; push(s); };
    { Step s; s.kind = SK::Run; push(s); }
    { Step s; s.kind = SK::FPingSilent; s.a = 1; s.delay = 1 * SEC; push(s); }      // the broker withholds every acknowledgement from here on
    pub((int)r.range(1, 2), 10 * MS);                                                // A: stays unacknowledged
    { Step s; s.kind = SK::PublishBurst; s.a = n; s.b = 0; s.delay = 10 * MS; push(s); }   // QoS 0: completes when written, consumes serial numbers
    pub((int)r.range(1, 2), 10 * MS);                                                // B
    if (r.chance(0.5)) pub((int)r.range(0, 2), 0);
    { Step s; s.kind = SK::Wait; s.delay = 1 * SEC; push(s); }
    // Heal: the broker answers again; the sentry gives the connection up (no reply for 20 s) and A, B are retransmitted
    return pl;
}

Plan generate_rc(uint64_t index) {
    int byte = (int)(index % 256), cat = (int)((index / 256) % 9), chunk = (int)((index / 2304) % 2);
    Plan pl; pl.seed = index;
    Knobs& k = pl.knobs;
    k.profile = "clean"; k.focus = "C20x:" + std::to_string(cat) + ":" + std::to_string(byte); k.variant = (int)(index % 2);
    HostCfg h; h.name = "h0"; k.hosts.push_back(h);
    k.client.brokers = "h0"; k.client.client_id = "rc"; k.client.keep_alive = 0;
    auto& nk = k.net; nk.lat_max = 1 * MS; nk.short_write_p = 0; nk.seg_split_p = 0; nk.chunk_mode = chunk ? 1 : 0;
    auto& bk = k.broker; bk.ack_delay_max = 0; bk.ack_zero_p = 1.0; bk.short_form_p = 0.0;
    k.healed_suffix = 40 * SEC;
    int id = 1;
    auto push = [&](Step s) { s.id = id++; pl.steps.push_back(std::move(s)); };
    auto arm = [&](uint8_t ptype) { Step s; s.kind = SK::FProto; s.a = 1; s.b = ptype; s.c = 0; s.d = (int)bk::PfAct::hostile_reply; s.s2 = std::to_string(1000 + byte); push(s); };
    // categories: 0 connack 1 puback 2 pubrec 3 pubrel 4 pubcomp 5 suback 6 unsuback 7 auth 8 disconnect
    switch (cat) {
    case 0: arm(CONNACK); { Step s; s.kind = SK::Run; push(s); } break;
    case 1: { Step s; s.kind = SK::Run; push(s); } arm(PUBACK); { Step s; s.kind = SK::Publish; s.a = 1; s.s1 = "t/" + std::to_string(id); s.s2 = std::to_string(id) + ":x"; s.delay = 100 * MS; push(s); } break;
    case 2: { Step s; s.kind = SK::Run; push(s); } arm(PUBREC); { Step s; s.kind = SK::Publish; s.a = 2; s.s1 = "t/" + std::to_string(id); s.s2 = std::to_string(id) + ":x"; s.delay = 100 * MS; push(s); } break;
    case 3: { Step s; s.kind = SK::Run; push(s); } { Step s; s.kind = SK::Receive; s.a = 2; s.delay = 100 * MS; push(s); } arm(PUBREL);
            { Step s; s.kind = SK::BrokerPublish; s.a = 2; s.s1 = "b/" + std::to_string(id); s.s2 = "m" + std::to_string(id) + ":x"; s.delay = 10 * MS; push(s); } break;
    case 4: { Step s; s.kind = SK::Run; push(s); } arm(PUBCOMP); { Step s; s.kind = SK::Publish; s.a = 2; s.s1 = "t/" + std::to_string(id); s.s2 = std::to_string(id) + ":x"; s.delay = 100 * MS; push(s); } break;
    case 5: { Step s; s.kind = SK::Run; push(s); } arm(SUBACK); { Step s; s.kind = SK::Subscribe; SubTopic t; t.filter = "f/" + std::to_string(id) + "/0"; t.opts = 1; s.subs.push_back(t); s.delay = 100 * MS; push(s); } break;
    case 6: { Step s; s.kind = SK::Run; push(s); } arm(UNSUBACK); { Step s; s.kind = SK::Unsubscribe; s.topics.push_back("f/1/0/u" + std::to_string(id)); s.delay = 100 * MS; push(s); } break;
    case 7: k.client.use_authenticator = true; k.client.auth_method = "m"; bk.auth_rounds = 1; arm(AUTH); { Step s; s.kind = SK::Run; push(s); } break;
    case 8: { Step s; s.kind = SK::Run; push(s); } { Step s; s.kind = SK::BrokerDisconnect; s.a = byte; s.delay = 200 * MS; push(s); } break;
    }
    { Step s; s.kind = SK::Wait; s.delay = 2 * SEC; push(s); }
    return pl;
}

// ---------------------------------------------------------------- C11x
// Plans for the mini client (detail::autoconnect_stream under one reader and one serialised writer): the fault and
// network part of a C11-focused plan, QoS 0 writes only, and cancel() followed in the same turn by async_run() -
// on the SAME stream object, which mqtt_client itself never does.
Plan generate_c11x(uint64_t seed) {
    Plan p = generate(seed, "C11");
    p.knobs.focus = "C11x";
    p.knobs.client.use_authenticator = false;
    p.knobs.client.will.reset();
    p.knobs.broker.auth_rounds = 0;
    auto r = sim::Rng::keyed(seed, "c11x", {});
    std::vector<Step> out;
    int extra = 900000;
    for (auto& st : p.steps) {
        switch (st.kind) {
        case SK::Subscribe: case SK::Unsubscribe: case SK::Receive: case SK::CancelOp: case SK::PublishBurst:
        case SK::BrokerPublish: case SK::BrokerBurst: case SK::FSessionPresent: case SK::FPingSilent: case SK::FHostileWindow:
            continue;
        case SK::Publish: st.a = 0; st.b = 0; st.c = 0; st.d = 0; st.props.clear(); out.push_back(st); break;
        case SK::Disconnect: st.kind = SK::CancelClient; st.props.clear(); [[fallthrough]];
        case SK::CancelClient:
            out.push_back(st);
            if (r.chance(0.7)) { Step run; run.id = extra++; run.kind = SK::Run; run.delay = r.chance(0.7) ? 0 : (ns_t)r.range(0, 50 * sim::MS); out.push_back(run); }
            break;
        default: out.push_back(st);
        }
    }
    // some pressure of its own: a trigger (write) right before a cancel so that a lock waiter exists
    if (r.chance(0.6)) {
        Step pub; pub.id = extra++; pub.kind = SK::Publish; pub.s1 = "t/x" + std::to_string(pub.id); pub.s2 = std::to_string(pub.id) + ":"; pub.delay = (ns_t)r.range(0, 2 * sim::SEC);
        Step cc; cc.id = extra++; cc.kind = SK::CancelClient; cc.delay = (ns_t)r.pick<ns_t>({0, 100 * sim::US, 1 * sim::MS, 20 * sim::MS, 300 * sim::MS});
        Step run; run.id = extra++; run.kind = SK::Run; run.delay = 0;
        Step pub2 = pub; pub2.id = extra++; pub2.s1 = "t/y" + std::to_string(pub2.id); pub2.s2 = std::to_string(pub2.id) + ":"; pub2.delay = (ns_t)r.range(0, 100 * sim::MS);
        size_t at = out.empty() ? 0 : 1 + r.below(out.size());
        out.insert(out.begin() + std::min(at, out.size()), {pub, cc, run, pub2});
    }
    // graceful shutdown requests (ReAuth stands for them in the mini client): alone, and right before cancel() + async_run so that
    // the lock grant of shutdown_op crosses the cancellation
    if (r.chance(0.5)) {
        Step sh; sh.id = extra++; sh.kind = SK::ReAuth; sh.delay = (ns_t)r.range(0, 2 * sim::SEC);
        size_t at = out.empty() ? 0 : 1 + r.below(out.size());
        if (r.chance(0.6)) {
            Step cc; cc.id = extra++; cc.kind = SK::CancelClient; cc.delay = (ns_t)r.pick<ns_t>({0, 0, 100 * sim::US, 10 * sim::MS});
            Step run; run.id = extra++; run.kind = SK::Run; run.delay = r.chance(0.7) ? 0 : (ns_t)r.range(0, 50 * sim::MS);
            Step pub; pub.id = extra++; pub.kind = SK::Publish; pub.s1 = "t/z" + std::to_string(pub.id); pub.s2 = std::to_string(pub.id) + ":"; pub.delay = (ns_t)r.range(0, 100 * sim::MS);
            out.insert(out.begin() + std::min(at, out.size()), {sh, cc, run, pub});
        } else out.insert(out.begin() + std::min(at, out.size()), sh);
    }
    p.steps = std::move(out);
    return p;
}

} // namespace app
