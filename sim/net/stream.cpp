#include "stream.hpp"

namespace sim {

std::function<ns_t(int)> g_shutdown_delay;   // set by the driver; default: immediate

ns_t shutdown_model::next_delay(int conn) {
    return g_shutdown_delay ? g_shutdown_delay(conn) : 0;
}

void start_layered_shutdown(stream& s, Pending<void(error_code)>::handler_type h) {
    int id = s.conn_id();
    auto holder = std::make_shared<uint64_t>(0);
    auto opp = std::make_shared<Pending<void(error_code)>::ptr>();
    auto op = Pending<void(error_code)>::make(std::move(h), s.get_executor(),
        [holder, opp, id](asio::cancellation_type_t) {
            if (*holder) g_world->cancel_event(*holder);
            g_world->tr("shutdown_opcancel", id);
            g_world->count("net.layered_shutdown_cancelled");
            if (*opp) (*opp)->complete(asio::error::operation_aborted);
        });
    *opp = op;
    ns_t d = shutdown_model::next_delay(id);
    g_world->tr("layered_shutdown", id, d);
    g_world->count("net.layered_shutdown");
    if (d <= 0) { op->complete(error_code{}); return; }
    std::weak_ptr<Pending<void(error_code)>> wop = op;
    *holder = g_world->schedule_after(d, "shutdown_done", [wop, opp]() {
        if (auto op = wop.lock()) op->complete(error_code{});
        opp->reset();
    });
}

} // namespace sim
