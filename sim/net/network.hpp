// Simulated TCP network: connections, in-order byte pipes with seeded segmentation
// and delays, fault actions. Knows nothing about MQTT (the broker model sits on top).
#pragma once
#include <boost/asio/buffer.hpp>
#include <boost/asio/ip/tcp.hpp>

#include <deque>
#include <functional>
#include <memory>
#include <string>
#include <vector>

#include "../core/pending.hpp"
#include "../core/world.hpp"

namespace sim {

using tcp_endpoint = boost::asio::ip::tcp::endpoint;

enum class ConnectOutcome { ok, refused, unreachable, hang };

struct ConnectDecision {
    ConnectOutcome outcome = ConnectOutcome::ok;
    ns_t delay = 0;
};

// one async_write_some call
struct WriteRec {
    uint64_t id = 0; int conn = -1; uint64_t group = 0;
    uint64_t seq_start = 0, seq_done = 0; ns_t t_start = 0, t_done = 0;
    size_t offered = 0, accepted = 0; size_t off_begin = 0;
    error_code result; bool done = false;
};
// one composed async_write (detail::async_write) on a stream
struct GroupRec {
    uint64_t id = 0; int conn = -1;
    uint64_t seq_start = 0, seq_done = 0; ns_t t_start = 0, t_done = 0;
    size_t off_begin = 0, off_end = 0;   // byte range of the client->broker stream offered by this op
    size_t total = 0;
    error_code result; bool done = false;
};

enum class Dir { c2b, b2c };
enum class FaultAct { rst, fin, blackhole };

struct ByteTrigger {
    Dir dir; size_t offset;      // fires when exactly `offset` bytes of that direction have been delivered
    FaultAct act; bool lose_inflight = false; bool fired = false;
    std::string label;
};

// one async_read_some of the client: lifetime and how it ended (C12)
struct ReadRec {
    int conn = -1; ns_t t_start = 0, t_end = 0; uint64_t seq_start = 0, seq_end = 0;
    enum End { pending, data, slot_cancel, error, closed } end = pending; size_t n = 0;
};

struct WriteFault {             // applies to the nth write_some from now on this connection
    int nth = 0;                // 0 = next
    int deliver_permille = 0;   // fraction of the accepted bytes that still reaches the broker
    error_code ec;
    bool fired = false;
};

struct Conn {
    int id = -1;
    int attempt_idx = -1;
    tcp_endpoint ep;
    int host_idx = -1, ep_idx = -1;
    enum St { connecting, established, failed, closed } st = connecting;
    uint64_t seq_begin = 0, seq_established = 0, seq_end = 0;
    ns_t t_begin = 0, t_established = 0, t_end = 0;
    ConnectDecision decision;
    error_code connect_result;

    // client side closing
    bool client_closed = false; uint64_t client_close_seq = 0; ns_t client_close_time = 0;
    bool client_shutdown = false;    // shutdown(both) called (variant B)
    const char* close_cause = "";    // who ended it first: "client", "broker_fin", "broker_rst", "net_rst", "write_fault", "blackhole_heal"
    // peer / network
    bool dead = false;               // RST seen by the client side: ops fail with dead_ec
    ns_t t_dead = 0; uint64_t seq_dead = 0;
    error_code dead_ec;
    bool fin_arrived = false;        // broker's FIN arrived at the client (reads drain then EOF)
    bool broker_closed = false;      // broker side no longer sends/receives
    ns_t t_broker_closed = 0;
    bool blackhole = false;
    bool severed = false;            // a reset was injected on the path: bytes sent from now on go nowhere (in either direction)
    bool fault_injected = false;     // any injected fault (transport or broker behaviour) touched this connection
    bool transport_fault = false;    // an injected transport-level fault (reset, eof, black hole, write error, cut)
    std::vector<std::string> fault_log;

    // client -> broker
    size_t c2b_accepted = 0, c2b_delivered = 0, c2b_dropped = 0;
    ns_t c2b_next_at = 0;
    int c2b_inflight = 0;
    // broker -> client
    size_t b2c_emitted = 0, b2c_arrived = 0, b2c_consumed = 0;
    ns_t b2c_next_at = 0;
    int b2c_inflight = 0;
    std::shared_ptr<std::string> b2c_tail; ns_t b2c_tail_at = 0; uint64_t b2c_tail_epoch = 0;   // last scheduled segment (coalescing)
    std::string rx;
    uint64_t epoch = 0;              // bumped on RST to drop in-flight segments

    // pending client operations
    Pending<void(error_code)>::ptr connect_op;
    Pending<void(error_code, std::size_t)>::ptr read_op;
    std::vector<boost::asio::mutable_buffer> read_bufs;
    ns_t read_t_start = 0; uint64_t read_seq_start = 0;
    ns_t t_last_consumed = 0;
    size_t read_cap = 0;
    Pending<void(error_code, std::size_t)>::ptr write_op;
    uint64_t write_event = 0;
    bool write_blocked = false; size_t write_widx = 0, write_accepted = 0;   // state of the pending write_some
    uint64_t cur_group = 0;

    std::vector<ByteTrigger> triggers;
    std::vector<WriteFault> write_faults;
    int write_calls = 0;
    int read_calls = 0;
    int cur_read = -1;               // index into Network::reads
    Rng chunk_rng, delay_rng;
};

// what the layer above (broker model / wire monitor) implements
struct NetSink {
    virtual ~NetSink() = default;
    virtual void on_attempt(Conn&) {}
    virtual void on_established(Conn&) = 0;
    virtual void on_bytes(Conn&, const char* data, size_t n, size_t stream_off) = 0;
    virtual void on_client_gone(Conn&) = 0;          // FIN/RST from the client reached the broker
    virtual void on_b2c_consumed(Conn&, size_t upto) {} // client read consumed bytes [.., upto)
    virtual void on_conn_dead(Conn&) {}
};

struct NetKnobs {
    // delays in ns
    ns_t lat_min = 0, lat_max = 2 * MS;          // one-way segment latency
    ns_t write_done_max = 1 * MS;                // completion delay of write_some
    double write_done_zero_p = 0.6;              // completes "immediately" (posted at once)
    double write_block_p = 0.4;                  // a delayed write is blocked (nothing accepted yet) rather than accepted with a late handler
    double short_write_p = 0.1;
    double seg_split_p = 0.3;                    // split a write into several segments
    bool coalesce_b2c = false;                   // broker packets emitted at one instant travel in one segment (what a TCP stack does with a burst of small writes)
    int chunk_mode = -1;                         // -1 mixed, 0 all-available, 1 single bytes, 2 random
    ns_t connect_lat_max = 20 * MS;
    uint64_t chunk_salt = 0;                     // differential mode: changes only the read-chunking sub-stream
};

class Network {
public:
    explicit Network(World& w);
    ~Network();

    World& w;
    NetKnobs knobs;
    NetSink* sink = nullptr;
    std::function<ConnectDecision(Conn&)> connect_policy;
    bool healed = false;
    // fault placement: the next segment from the broker arrives within +-1 ns of this instant (a pending client timer deadline)
    // instead of after its seeded latency; 0 = off. Set by the driver (FRaceTimer with b = 1), consumed by the next broker_send.
    ns_t align_next_b2c = 0;
    // fault placement: the process is descheduled for this long right after the next bytes from the broker have arrived and the
    // pending read has been completed (its handler is queued, not run): data sits unprocessed while timers expire. 0 = off.
    ns_t stall_on_next_arrival = 0;
    std::function<void(ns_t)> stall_cb;          // performs the stall (the driver owns the clock bookkeeping and the marks)

    std::vector<std::unique_ptr<Conn>> conns;
    std::vector<WriteRec> writes;
    std::vector<GroupRec> groups;
    std::vector<ReadRec> reads;
    Conn* conn(int id) { return id >= 0 && id < (int)conns.size() ? conns[id].get() : nullptr; }

    // ---- client side (called by the stream variants)
    int start_connect(const tcp_endpoint& ep, const asio::any_io_executor& ex,
                      Pending<void(error_code)>::handler_type h);
    void start_read(int conn, std::vector<boost::asio::mutable_buffer> bufs, const asio::any_io_executor& ex,
                    Pending<void(error_code, std::size_t)>::handler_type h);
    void start_write(int conn, const std::vector<boost::asio::const_buffer>& bufs, const asio::any_io_executor& ex,
                     Pending<void(error_code, std::size_t)>::handler_type h);
    uint64_t begin_group(int conn, size_t total);
    void end_group(uint64_t gid, error_code ec, size_t n);
    void client_close(int conn, const char* why);       // close()/destruction
    void client_shutdown(int conn);                     // shutdown(both) on variant B
    bool peer_name_ok(int conn);                        // remote_endpoint() would succeed

    // ---- broker side
    void broker_send(Conn& c, const std::string& bytes);
    void broker_close(Conn& c, bool rst);

    // ---- faults
    void inject_rst(Conn& c, bool lose_inflight, const char* label);
    void inject_blackhole(Conn& c, const char* label);
    void heal();

    // counters for evidence
    uint64_t bytes_c2b = 0, bytes_b2c = 0;

private:
    void try_complete_read(Conn& c);
    void deliver_c2b(Conn& c, std::string data, size_t off, uint64_t epoch);
    void arrive_b2c(Conn& c, std::string data, uint64_t epoch);
    void check_triggers(Conn& c, Dir d);
    size_t cut_at_trigger(Conn& c, Dir d, size_t off, size_t len);
    void fail_pending(Conn& c, error_code ec);
    void finish_pending_write(Conn& c, error_code why);
    size_t accept_write(Conn& c, size_t widx, std::string data);
    void end_read(Conn& c, ReadRec::End how, size_t n);
    void mark_dead(Conn& c, error_code ec);
    void apply(Conn& c, const ByteTrigger& t);
    ns_t latency(Conn& c);
};

extern Network* g_net;

} // namespace sim
