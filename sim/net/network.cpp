#include "network.hpp"

#include <boost/asio/error.hpp>
#include <cassert>
#include <cstring>

namespace sim {

Network* g_net = nullptr;

Network::Network(World& world) : w(world) { g_net = this; }
Network::~Network() {
    for (auto& c : conns) {
        if (c->connect_op) c->connect_op->abandon();
        if (c->read_op) c->read_op->abandon();
        if (c->write_op) c->write_op->abandon();
    }
    if (g_net == this) g_net = nullptr;
}

ns_t Network::latency(Conn& c) {
    if (knobs.lat_max <= knobs.lat_min) return knobs.lat_min;
    // bias to the extremes: 0 delay, small, max
    auto r = c.delay_rng.below(10);
    if (r < 3) return knobs.lat_min;
    return c.delay_rng.range(knobs.lat_min, knobs.lat_max);
}

// ------------------------------------------------------------------ connect

int Network::start_connect(const tcp_endpoint& ep, const asio::any_io_executor& ex,
                           Pending<void(error_code)>::handler_type h)
{
    auto c = std::make_unique<Conn>();
    c->id = (int)conns.size();
    c->ep = ep;
    c->seq_begin = w.next_seq();
    c->t_begin = w.now;
    c->chunk_rng = Rng::keyed(w.seed ^ knobs.chunk_salt, "chunk", {(uint64_t)c->id});
    c->delay_rng = Rng::keyed(w.seed, "delay", {(uint64_t)c->id});
    Conn& cr = *c;
    conns.push_back(std::move(c));
    if (sink) sink->on_attempt(cr);
    cr.decision = connect_policy ? connect_policy(cr) : ConnectDecision{};
    w.tr("connect_start", cr.id, ep.port(), (uint64_t)cr.decision.outcome);

    int id = cr.id;
    cr.connect_op = Pending<void(error_code)>::make(std::move(h), ex,
        [this, id](asio::cancellation_type_t) {
            Conn& c = *conns[id];
            if (c.connect_op && c.connect_op->pending()) {
                w.tr("connect_opcancel", id);
                c.connect_result = asio::error::operation_aborted;
                c.st = Conn::failed;
                c.seq_end = w.next_seq(); c.t_end = w.now;
                c.connect_op->complete(asio::error::operation_aborted);
            }
        });
    if (cr.decision.outcome != ConnectOutcome::hang) {
        w.schedule_after(cr.decision.delay, "connect_done", [this, id]() {
            Conn& c = *conns[id];
            if (!c.connect_op || !c.connect_op->pending()) return;
            error_code ec;
            switch (c.decision.outcome) {
            case ConnectOutcome::ok: break;
            case ConnectOutcome::refused: ec = asio::error::connection_refused; break;
            case ConnectOutcome::unreachable: ec = asio::error::host_unreachable; break;
            default: break;
            }
            c.connect_result = ec;
            uint64_t s = w.next_seq();
            if (!ec) {
                c.st = Conn::established; c.seq_established = s; c.t_established = w.now;
                w.tr("connect_ok", id);
                if (sink) sink->on_established(c);
            } else {
                c.st = Conn::failed; c.seq_end = s; c.t_end = w.now;
                w.tr("connect_fail", id, ec.value());
            }
            c.connect_op->complete(ec);
        });
    }
    return id;
}

// ------------------------------------------------------------------ read

void Network::start_read(int id, std::vector<boost::asio::mutable_buffer> bufs, const asio::any_io_executor& ex,
                         Pending<void(error_code, std::size_t)>::handler_type h)
{
    Conn* cp = conn(id);
    if (!cp || cp->client_closed || cp->st != Conn::established) {
        auto op = Pending<void(error_code, std::size_t)>::make(std::move(h), ex);
        op->complete(cp && cp->client_closed ? error_code(asio::error::bad_descriptor) : error_code(asio::error::not_connected), 0);
        return;
    }
    Conn& c = *cp;
    assert(!(c.read_op && c.read_op->pending()) && "two reads outstanding on one stream");
    ++c.read_calls;
    size_t cap = 0;
    for (auto& b : bufs) cap += b.size();
    c.read_bufs = std::move(bufs);
    c.read_cap = cap;
    { ReadRec rr; rr.conn = id; rr.t_start = w.now; rr.seq_start = w.seq; c.cur_read = (int)reads.size(); reads.push_back(rr); }
    c.read_op = Pending<void(error_code, std::size_t)>::make(std::move(h), ex,
        [this, id](asio::cancellation_type_t) {
            Conn& c = *conns[id];
            if (c.read_op && c.read_op->pending()) {
                w.tr("read_opcancel", id);
                w.count("net.read_cancelled");
                end_read(c, ReadRec::slot_cancel, 0);
                c.read_op->complete(asio::error::operation_aborted, 0);
            }
        });
    if (cap == 0) { end_read(c, ReadRec::data, 0); c.read_op->complete(error_code{}, 0); return; }
    try_complete_read(c);
}

void Network::try_complete_read(Conn& c) {
    if (!c.read_op || !c.read_op->pending()) return;
    if (!c.rx.empty()) {
        size_t avail = std::min(c.rx.size(), c.read_cap);
        size_t n = avail;
        int mode = knobs.chunk_mode;
        if (mode < 0) { auto r = c.chunk_rng.below(10); mode = r < 5 ? 0 : r < 7 ? 1 : 2; }
        if (mode == 1) n = 1;
        else if (mode == 2) n = (size_t)c.chunk_rng.range(1, (int64_t)avail);
        size_t left = n, pos = 0;
        for (auto& b : c.read_bufs) {
            if (!left) break;
            size_t k = std::min(left, b.size());
            std::memcpy(b.data(), c.rx.data() + pos, k);   // ASan checks the client's buffer here
            pos += k; left -= k;
        }
        c.rx.erase(0, n);
        c.b2c_consumed += n;
        c.t_last_consumed = w.now;
        w.next_seq();
        end_read(c, ReadRec::data, n);
        w.tr("read_done", c.id, n);
        if (sink) sink->on_b2c_consumed(c, c.b2c_consumed);
        c.read_op->complete(error_code{}, n);
    } else if (c.dead) {
        w.next_seq();
        w.tr("read_err", c.id, c.dead_ec.value());
        end_read(c, ReadRec::error, 0);
        c.read_op->complete(c.dead_ec, 0);
    } else if (c.fin_arrived || c.client_shutdown) {
        w.next_seq();
        w.tr("read_eof", c.id);
        end_read(c, ReadRec::error, 0);
        c.read_op->complete(asio::error::eof, 0);
    }
}

void Network::end_read(Conn& c, ReadRec::End how, size_t n) {
    if (c.cur_read < 0) return;
    auto& r = reads[c.cur_read];
    r.end = how; r.t_end = w.now; r.seq_end = w.seq; r.n = n;
    c.cur_read = -1;
}

void Network::mark_dead(Conn& c, error_code ec) {
    c.dead = true; c.dead_ec = ec; c.rx.clear();
    c.t_dead = w.now; c.seq_dead = w.seq;
}

// ------------------------------------------------------------------ write

uint64_t Network::begin_group(int id, size_t total) {
    GroupRec g;
    g.id = groups.size() + 1; g.conn = id; g.seq_start = w.next_seq(); g.t_start = w.now; g.total = total;
    if (Conn* c = conn(id)) { g.off_begin = c->c2b_accepted; c->cur_group = g.id; }
    g.off_end = g.off_begin + total;
    groups.push_back(g);
    w.tr("wgroup_begin", id, total);
    return g.id;
}

void Network::end_group(uint64_t gid, error_code ec, size_t n) {
    auto& g = groups[gid - 1];
    g.done = true; g.result = ec; g.seq_done = w.next_seq(); g.t_done = w.now;
    (void)n;
    if (Conn* c = conn(g.conn)) if (c->cur_group == gid) c->cur_group = 0;
    w.tr("wgroup_end", g.conn, ec.value());
}

void Network::start_write(int id, const std::vector<boost::asio::const_buffer>& bufs, const asio::any_io_executor& ex,
                          Pending<void(error_code, std::size_t)>::handler_type h)
{
    Conn* cp = conn(id);
    // a pending write_some is cancellable through its slot, like a write on a full socket buffer
    auto op = Pending<void(error_code, std::size_t)>::make(std::move(h), ex,
        [this, id](asio::cancellation_type_t) {
            Conn* c = conn(id);
            if (!c || !c->write_op || !c->write_op->pending()) return;
            w.tr("write_opcancel", id);
            finish_pending_write(*c, asio::error::operation_aborted);
        });
    WriteRec rec;
    rec.id = writes.size() + 1; rec.conn = id; rec.seq_start = w.next_seq(); rec.t_start = w.now;
    size_t offered = 0;
    for (auto& b : bufs) offered += b.size();
    rec.offered = offered;
    auto finish_now = [&](error_code ec, size_t n) {
        rec.done = true; rec.result = ec; rec.accepted = n; rec.seq_done = w.seq; rec.t_done = w.now;
        writes.push_back(rec);
        w.tr("write_fail_now", id, ec.value());
        op->complete(ec, n);
    };
    if (!cp || cp->st != Conn::established) return finish_now(asio::error::not_connected, 0);
    Conn& c = *cp;
    rec.group = c.cur_group;
    rec.off_begin = c.c2b_accepted;
    if (c.client_closed) return finish_now(asio::error::bad_descriptor, 0);
    if (c.client_shutdown) return finish_now(asio::error::broken_pipe, 0);
    if (c.dead) return finish_now(c.dead_ec == asio::error::eof ? error_code(asio::error::broken_pipe) : c.dead_ec, 0);
    assert(!(c.write_op && c.write_op->pending()) && "two writes outstanding on one stream");
    int call_idx = c.write_calls++;

    std::string data;
    data.reserve(offered);
    for (auto& b : bufs) data.append(static_cast<const char*>(b.data()), b.size());

    // injected write fault?
    for (auto& wf : c.write_faults) {
        if (wf.fired || wf.nth != call_idx) continue;
        wf.fired = true;
        c.fault_injected = true; c.transport_fault = true;
        size_t k = offered * (size_t)wf.deliver_permille / 1000;
        if (c.severed || c.blackhole || c.broker_closed) k = 0;     // nothing can reach the peer any more (no gaps in a TCP stream)
        c.fault_log.push_back("write_fault deliver " + std::to_string(k) + "/" + std::to_string(offered));
        w.count("fault.write_error");
        if (k == offered) w.count("fault.write_error_all_delivered");
        else if (k == 0) w.count("fault.write_error_none_delivered");
        size_t off = c.c2b_accepted;
        c.c2b_accepted += offered;       // consumed from the client's point of view: stream offsets stay aligned
        bytes_c2b += k;
        c.c2b_dropped += offered - k;
        ns_t at = std::max(c.c2b_next_at, w.now + latency(c));
        c.c2b_next_at = at;
        uint64_t ep = c.epoch;
        if (k) {
            ++c.c2b_inflight;
            w.schedule(at, "c2b_seg", [this, id, d = data.substr(0, k), off, ep]() mutable {
                deliver_c2b(*conns[id], std::move(d), off, ep);
            });
        }
        // the connection is dead from both sides afterwards
        w.schedule(at, "wf_broker_dead", [this, id]() {
            Conn& c = *conns[id];
            if (!c.broker_closed) { c.broker_closed = true; if (!*c.close_cause) c.close_cause = "write_fault"; if (sink) sink->on_client_gone(c); }
        });
        c.dead = true; c.dead_ec = wf.ec;
        if (!*c.close_cause) c.close_cause = "write_fault";
        c.rx.clear();
        rec.accepted = 0; rec.result = wf.ec; rec.done = true; rec.seq_done = w.seq; rec.t_done = w.now;
        writes.push_back(rec);
        w.tr("write_fault", id, k, offered);
        op->complete(wf.ec, 0);
        // a pending read fails as well
        c.t_dead = w.now; c.seq_dead = w.seq;
        if (c.read_op && c.read_op->pending()) { end_read(c, ReadRec::error, 0); c.read_op->complete(wf.ec, 0); }
        if (sink) sink->on_conn_dead(c);
        return;
    }

    // Two kinds of pending write (both exist on real sockets):
    //  - accepted: the transport took the bytes at once (they travel on), only the completion handler is late;
    //    nothing that happens afterwards - cancellation, close, a reset arriving - changes the result: success.
    //  - blocked: the send buffer is full; nothing is taken until the write unblocks; cancelling or closing
    //    before that gives operation_aborted and not one byte reaches the peer.
    c.write_op = op;
    size_t widx = writes.size();
    writes.push_back(rec);
    ns_t d = c.delay_rng.chance(knobs.write_done_zero_p) ? 0 : c.delay_rng.range(0, knobs.write_done_max);
    bool blocked = d > 0 && c.delay_rng.chance(knobs.write_block_p);
    c.write_blocked = blocked; c.write_widx = widx; c.write_accepted = 0;
    if (!blocked) {
        c.write_accepted = accept_write(c, widx, std::move(data));
        c.write_event = w.schedule_after(d, "write_done", [this, id]() {
            Conn& c = *conns[id];
            c.write_event = 0;
            if (!c.write_op || !c.write_op->pending()) return;
            finish_pending_write(c, error_code{});
        });
    } else {
        w.count("net.write_blocked");
        c.write_event = w.schedule_after(d, "write_unblock", [this, id, data = std::move(data)]() mutable {
            Conn& c = *conns[id];
            c.write_event = 0;
            if (!c.write_op || !c.write_op->pending()) return;
            if (c.dead) return finish_pending_write(c, c.dead_ec == asio::error::eof ? error_code(asio::error::broken_pipe) : c.dead_ec);
            c.write_accepted = accept_write(c, c.write_widx, std::move(data));
            c.write_blocked = false;
            finish_pending_write(c, error_code{});
        });
    }
}

// completes the pending write_some of a connection; `why` is what the caller wants to report (cancellation, close),
// which only takes effect while the write is still blocked
void Network::finish_pending_write(Conn& c, error_code why) {
    if (!c.write_op || !c.write_op->pending()) return;
    if (c.write_event) { w.cancel_event(c.write_event); c.write_event = 0; }
    auto& r = writes[c.write_widx];
    error_code ec = c.write_blocked ? why : error_code{};
    size_t n = c.write_blocked ? 0 : c.write_accepted;
    if (why && c.write_blocked) w.count("net.write_cancelled");
    else if (why) w.count("net.write_cancel_after_accept");
    r.done = true; r.result = ec; r.seq_done = w.next_seq(); r.t_done = w.now;
    w.tr("write_done", c.id, n, ec.value());
    auto op = c.write_op; c.write_op = nullptr;
    c.write_blocked = false;
    op->complete(ec, n);
}

// the transport takes (a prefix of) the offered bytes and sends them on their way
size_t Network::accept_write(Conn& c, size_t widx, std::string data) {
    int id = c.id;
    size_t offered = data.size();
    size_t accepted = offered;
    if (offered > 1 && c.delay_rng.chance(knobs.short_write_p)) {
        accepted = (size_t)c.delay_rng.range(1, (int64_t)offered - 1);
        w.count("net.short_write");
    }
    data.resize(accepted);
    size_t off = c.c2b_accepted;
    c.c2b_accepted += accepted;
    writes[widx].accepted = accepted;

    if (c.blackhole || c.severed) {
        c.c2b_dropped += accepted;
        w.count(c.severed ? "net.bytes_after_reset_dropped" : "net.bytes_blackholed", accepted);
    } else if (c.broker_closed) {
        // peer has closed: TCP accepts the bytes, they are lost, RST comes back
        c.c2b_dropped += accepted;
        w.count("net.write_after_peer_close");
        ns_t at = w.now + 2 * latency(c);
        w.schedule(at, "rst_after_fin", [this, id]() {
            Conn& c = *conns[id];
            if (c.client_closed || c.dead) return;
            mark_dead(c, asio::error::connection_reset);
            if (sink) sink->on_conn_dead(c);
            try_complete_read(c);
        });
    } else {
        // split into in-order segments
        size_t pos = 0;
        while (pos < accepted) {
            size_t n = accepted - pos;
            if (n > 1 && c.delay_rng.chance(knobs.seg_split_p)) n = (size_t)c.delay_rng.range(1, (int64_t)n);
            ns_t at = std::max(c.c2b_next_at, w.now + latency(c));
            c.c2b_next_at = at;
            uint64_t ep = c.epoch;
            ++c.c2b_inflight;
            w.schedule(at, "c2b_seg", [this, id, d = data.substr(pos, n), o = off + pos, ep]() mutable {
                deliver_c2b(*conns[id], std::move(d), o, ep);
            });
            pos += n;
        }
    }
    bytes_c2b += accepted;
    w.tr("write_some", id, offered, accepted);
    return accepted;
}

size_t Network::cut_at_trigger(Conn& c, Dir d, size_t off, size_t len) {
    size_t cut = len;
    for (auto& t : c.triggers)
        if (!t.fired && t.dir == d && t.offset > off && t.offset < off + len)
            cut = std::min(cut, t.offset - off);
    return cut;
}

void Network::apply(Conn& c, const ByteTrigger& t) {
    c.fault_injected = true; c.transport_fault = true;
    c.fault_log.push_back(t.label);
    switch (t.act) {
    case FaultAct::rst: inject_rst(c, t.lose_inflight, t.label.c_str()); break;
    case FaultAct::fin: w.count("fault.eof"); if (!c.broker_closed) { if (!*c.close_cause) c.close_cause = "net_fin"; broker_close(c, false); if (sink) sink->on_client_gone(c); } break;
    case FaultAct::blackhole: inject_blackhole(c, t.label.c_str()); break;
    }
}

void Network::check_triggers(Conn& c, Dir d) {
    size_t pos = d == Dir::c2b ? c.c2b_delivered : c.b2c_arrived;
    for (size_t i = 0; i < c.triggers.size(); ++i) {
        auto& t = c.triggers[i];
        if (!t.fired && t.dir == d && t.offset <= pos) {
            t.fired = true;
            ByteTrigger copy = t;
            w.tr("trigger", c.id, (uint64_t)d, copy.offset);
            apply(c, copy);
        }
    }
}

void Network::deliver_c2b(Conn& c, std::string data, size_t off, uint64_t epoch) {
    --c.c2b_inflight;
    if (epoch != c.epoch || c.broker_closed || c.blackhole) {
        c.c2b_dropped += data.size();
        w.count("net.c2b_bytes_lost_inflight", data.size());
        return;
    }
    size_t pos = 0;
    while (pos < data.size()) {
        size_t n = cut_at_trigger(c, Dir::c2b, off + pos, data.size() - pos);
        c.c2b_delivered = off + pos + n;
        w.next_seq();
        w.tr("c2b_deliver", c.id, off + pos, n);
        if (sink) sink->on_bytes(c, data.data() + pos, n, off + pos);
        pos += n;
        check_triggers(c, Dir::c2b);
        if (epoch != c.epoch || c.broker_closed || c.blackhole) {
            c.c2b_dropped += data.size() - pos;
            return;
        }
    }
}

// ------------------------------------------------------------------ broker side

void Network::broker_send(Conn& c, const std::string& bytes) {
    if (c.broker_closed || bytes.empty()) return;
    c.b2c_emitted += bytes.size();
    bytes_b2c += bytes.size();
    if (c.blackhole || c.severed) return;
    size_t pos = 0;
    int id = c.id;
    while (pos < bytes.size()) {
        size_t n = bytes.size() - pos;
        if (n > 1 && c.delay_rng.chance(knobs.seg_split_p)) n = (size_t)c.delay_rng.range(1, (int64_t)n);
        ns_t at = std::max(c.b2c_next_at, w.now + latency(c));
        if (align_next_b2c > 0 && !healed) {
            if (align_next_b2c >= std::max(c.b2c_next_at, w.now)) { at = align_next_b2c; w.count("probe.b2c_aligned_to_timer"); }
            align_next_b2c = 0;
        }
        c.b2c_next_at = at;
        uint64_t ep = c.epoch;
        if (knobs.coalesce_b2c && c.b2c_tail && c.b2c_tail_at == at && c.b2c_tail_epoch == ep) {
            c.b2c_tail->append(bytes, pos, n);      // rides in the segment that is already on its way for this instant
            pos += n;
            continue;
        }
        ++c.b2c_inflight;
        auto seg = std::make_shared<std::string>(bytes.substr(pos, n));
        c.b2c_tail = seg; c.b2c_tail_at = at; c.b2c_tail_epoch = ep;
        w.schedule(at, "b2c_seg", [this, id, seg, ep]() mutable {
            Conn& cc = *conns[id];
            if (cc.b2c_tail == seg) cc.b2c_tail.reset();
            arrive_b2c(cc, std::move(*seg), ep);
        });
        pos += n;
    }
}

void Network::arrive_b2c(Conn& c, std::string data, uint64_t epoch) {
    --c.b2c_inflight;
    if (epoch != c.epoch || c.client_closed || c.dead || c.blackhole || c.client_shutdown) {
        w.count("net.b2c_bytes_lost_inflight", data.size());
        return;
    }
    size_t pos = 0;
    while (pos < data.size()) {
        size_t n = cut_at_trigger(c, Dir::b2c, c.b2c_arrived, data.size() - pos);
        c.rx.append(data, pos, n);
        c.b2c_arrived += n;
        pos += n;
        w.tr("b2c_arrive", c.id, c.b2c_arrived, n);
        check_triggers(c, Dir::b2c);
        if (epoch != c.epoch || c.dead || c.client_closed || c.blackhole) return;
    }
    bool had_read = c.read_op && c.read_op->pending();
    try_complete_read(c);
    if (stall_on_next_arrival > 0 && had_read && !(c.read_op && c.read_op->pending()) && !healed && stall_cb) {
        ns_t d = stall_on_next_arrival; stall_on_next_arrival = 0;
        w.count("fault.stall_after_arrival");
        stall_cb(d);
    }
}

void Network::broker_close(Conn& c, bool rst) {
    if (c.broker_closed) return;
    c.broker_closed = true; c.t_broker_closed = w.now;
    if (!*c.close_cause) c.close_cause = rst ? "broker_rst" : "broker_fin";
    int id = c.id;
    w.tr("broker_close", id, rst);
    if (rst) {
        ++c.epoch;
        w.schedule_after(latency(c), "rst_arrive", [this, id]() {
            Conn& c = *conns[id];
            if (c.client_closed || c.dead) return;
            mark_dead(c, asio::error::connection_reset);
            if (sink) sink->on_conn_dead(c);
            try_complete_read(c);
        });
    } else {
        ns_t at = std::max(c.b2c_next_at, w.now + latency(c));
        c.b2c_next_at = at;
        uint64_t ep = c.epoch;
        w.schedule(at, "fin_arrive", [this, id, ep]() {
            Conn& c = *conns[id];
            if (c.client_closed || c.dead || ep != c.epoch) return;
            c.fin_arrived = true;
            w.tr("fin_arrive", id);
            try_complete_read(c);
        });
    }
}

// ------------------------------------------------------------------ client side closing

void Network::fail_pending(Conn& c, error_code ec) {
    if (c.connect_op && c.connect_op->pending()) {
        c.connect_result = ec;
        c.connect_op->complete(ec);
    }
    if (c.read_op && c.read_op->pending()) { end_read(c, ReadRec::closed, 0); c.read_op->complete(ec, 0); }
    finish_pending_write(c, ec);
}

void Network::client_close(int id, const char* why) {
    Conn* cp = conn(id);
    if (!cp || cp->client_closed) return;
    Conn& c = *cp;
    c.client_closed = true;
    c.client_close_seq = w.next_seq();
    c.client_close_time = w.now;
    if (!*c.close_cause) c.close_cause = "client";
    w.trs("client_close", why, id);
    bool was_established = c.st == Conn::established;
    if (c.st == Conn::connecting || c.st == Conn::established) { c.seq_end = c.client_close_seq; c.t_end = w.now; }
    if (c.st == Conn::connecting) c.st = Conn::failed; else if (c.st == Conn::established) c.st = Conn::closed;
    fail_pending(c, asio::error::operation_aborted);
    c.rx.clear();
    if (was_established && !c.broker_closed) {
        ns_t at = std::max(c.c2b_next_at, w.now + latency(c));
        c.c2b_next_at = at;
        w.schedule(at, "client_fin", [this, id]() {
            Conn& c = *conns[id];
            if (c.broker_closed) return;
            c.broker_closed = true;
            w.next_seq();
            w.tr("client_gone", id);
            if (sink) sink->on_client_gone(c);
        });
    }
}

void Network::client_shutdown(int id) {
    Conn* cp = conn(id);
    if (!cp || cp->client_closed || cp->client_shutdown || cp->st != Conn::established) return;
    Conn& c = *cp;
    c.client_shutdown = true;
    if (!*c.close_cause) c.close_cause = "client";
    c.client_close_seq = w.next_seq(); c.client_close_time = w.now;
    w.tr("client_shutdown", id);
    c.rx.clear();
    // pending read sees EOF (socket semantics of shutdown(SHUT_RD))
    try_complete_read(c);
    if (!c.broker_closed) {
        ns_t at = std::max(c.c2b_next_at, w.now + latency(c));
        c.c2b_next_at = at;
        w.schedule(at, "client_fin", [this, id]() {
            Conn& c = *conns[id];
            if (c.broker_closed) return;
            c.broker_closed = true;
            w.next_seq();
            w.tr("client_gone", id);
            if (sink) sink->on_client_gone(c);
        });
    }
}

bool Network::peer_name_ok(int id) {
    Conn* c = conn(id);
    if (!c || c->client_closed || c->st != Conn::established) return false;
    // getpeername() fails with ENOTCONN once a RST was received
    if (c->dead && c->dead_ec == asio::error::connection_reset) return false;
    return true;
}

// ------------------------------------------------------------------ faults

void Network::inject_rst(Conn& c, bool lose_inflight, const char* label) {
    if (c.client_closed || c.dead || c.st != Conn::established) return;
    c.fault_injected = true; c.transport_fault = true;
    if (!*c.close_cause) c.close_cause = "net_rst";
    w.count("fault.reset");
    if (lose_inflight) { ++c.epoch; w.count("fault.reset_lose_inflight"); }
    c.severed = true;
    w.trs("inject_rst", label, c.id);
    int id = c.id;
    w.schedule_after(latency(c), "rst_broker_side", [this, id]() {
        Conn& c = *conns[id];
        if (c.broker_closed) return;
        c.broker_closed = true;
        w.next_seq();
        if (sink) sink->on_client_gone(c);
    });
    w.schedule_after(latency(c), "rst_client_side", [this, id]() {
        Conn& c = *conns[id];
        if (c.client_closed || c.dead) return;
        mark_dead(c, asio::error::connection_reset);
        ++c.epoch;
        w.next_seq();
        w.tr("rst_arrive", id);
        if (sink) sink->on_conn_dead(c);
        try_complete_read(c);
    });
}

void Network::inject_blackhole(Conn& c, const char* label) {
    if (c.client_closed || c.dead || c.blackhole) return;
    c.fault_injected = true; c.transport_fault = true;
    c.blackhole = true;
    ++c.epoch;
    w.count("fault.blackhole");
    w.trs("inject_blackhole", label, c.id);
    if (healed) inject_rst(c, true, "blackhole_after_heal");
}

void Network::heal() {
    healed = true;
    for (auto& c : conns)
        if (c->blackhole && !c->client_closed && !c->dead && c->st == Conn::established) {
            if (!*c->close_cause) c->close_cause = "blackhole_heal";
            // a half-dead connection does not survive the path coming back
            int id = c->id;
            mark_dead(*c, asio::error::connection_reset);
            c->broker_closed = true;
            w.next_seq();
            w.tr("heal_reset", id);
            if (sink) { sink->on_client_gone(*c); sink->on_conn_dead(*c); }
            try_complete_read(*c);
        }
}

} // namespace sim
