// Variant B: an explicit specialisation of asio::basic_stream_socket for a simulator
// protocol tag, so that the client's is_basic_socket fast paths (shutdown_op.hpp,
// detail/shutdown.hpp) - the ones real TCP users take - run in simulation too.
#pragma once
#include <boost/asio/basic_stream_socket.hpp>
#include "stream.hpp"

namespace sim { struct proto {}; }

namespace boost { namespace asio {

template <>
class basic_stream_socket<sim::proto, any_io_executor>
    : public sim::stream_base,
      public sim::composed_write<basic_stream_socket<sim::proto, any_io_executor>>
{
public:
    using sim::stream_base::stream_base;
    using lowest_layer_type = basic_stream_socket;

    void shutdown(socket_base::shutdown_type, boost::system::error_code& ec) {
        if (!open_) { ec = boost::asio::error::bad_descriptor; return; }
        if (conn_ < 0 || !sim::g_net || !sim::g_net->peer_name_ok(conn_)) { ec = boost::asio::error::not_connected; return; }
        ec = {};
        sim::g_net->client_shutdown(conn_);
    }
};

}} // namespace boost::asio

namespace sim {
using socket_b = boost::asio::basic_stream_socket<sim::proto, boost::asio::any_io_executor>;
}
