// Variant A: a user-defined layered-style stream (like TLS/WebSocket streams and
// like the repository's own test_stream): not a basic_stream_socket, so the client
// takes its generic paths (shutdown_op with connection lock, ADL async_shutdown).
#pragma once
#include <boost/asio/any_io_executor.hpp>
#include <boost/asio/async_result.hpp>
#include <boost/asio/buffer.hpp>
#include <boost/asio/ip/tcp.hpp>
#include <boost/asio/socket_base.hpp>
#include <boost/asio/write.hpp>

#include <memory>
#include <vector>

#include "network.hpp"

namespace sim {

// forwards the associated characteristics of the wrapped handler
template <typename Handler>
struct group_end_handler {
    Handler h;
    uint64_t gid;
    using executor_type = asio::associated_executor_t<Handler, asio::any_io_executor>;
    asio::any_io_executor dflt;
    executor_type get_executor() const noexcept { return asio::get_associated_executor(h, dflt); }
    using allocator_type = asio::associated_allocator_t<Handler>;
    allocator_type get_allocator() const noexcept { return asio::get_associated_allocator(h); }
    using cancellation_slot_type = asio::associated_cancellation_slot_t<Handler>;
    cancellation_slot_type get_cancellation_slot() const noexcept { return asio::get_associated_cancellation_slot(h); }
    void operator()(error_code ec, std::size_t n) {
        g_net->end_group(gid, ec, n);
        std::move(h)(ec, n);
    }
};

struct shutdown_model {
    // how ADL async_shutdown of variant A behaves: delay before completion
    static ns_t next_delay(int conn);
};

class stream_base {
public:
    using executor_type = asio::any_io_executor;
    using endpoint_type = tcp_endpoint;
    using protocol_type = boost::asio::ip::tcp;

    explicit stream_base(const executor_type& ex) : ex_(ex) {}
    stream_base(const stream_base&) = delete;
    stream_base& operator=(const stream_base&) = delete;
    ~stream_base() { do_close("destroy"); }

    executor_type get_executor() const noexcept { return ex_; }

    void open(const protocol_type&, error_code& ec) { ec = {}; open_ = true; }
    bool is_open() const noexcept { return open_; }
    void close(error_code& ec) { ec = {}; do_close("close"); }
    void close() { do_close("close"); }
    void cancel(error_code& ec) { ec = {}; }

    template <typename Option> void set_option(const Option&, error_code& ec) { ec = {}; }

    endpoint_type remote_endpoint(error_code& ec) const {
        if (!open_ || conn_ < 0 || !g_net || !g_net->peer_name_ok(conn_)) { ec = asio::error::not_connected; return {}; }
        ec = {};
        return g_net->conn(conn_)->ep;
    }

    template <typename ConnectToken>
    decltype(auto) async_connect(const endpoint_type& ep, ConnectToken&& token) {
        return asio::async_initiate<ConnectToken, void(error_code)>(
            [this](auto handler, endpoint_type ep) {
                if (!open_) open_ = true;    // asio opens the socket on demand
                conn_ = g_net->start_connect(ep, ex_, Pending<void(error_code)>::handler_type(std::move(handler)));
            }, token, ep);
    }

    template <typename MutableBufferSequence, typename ReadToken>
    decltype(auto) async_read_some(const MutableBufferSequence& buffers, ReadToken&& token) {
        return asio::async_initiate<ReadToken, void(error_code, std::size_t)>(
            [this](auto handler, const MutableBufferSequence& buffers) {
                std::vector<boost::asio::mutable_buffer> v;
                for (auto it = boost::asio::buffer_sequence_begin(buffers); it != boost::asio::buffer_sequence_end(buffers); ++it)
                    if (boost::asio::mutable_buffer(*it).size()) v.push_back(*it);
                g_net->start_read(open_ ? conn_ : -1, std::move(v), ex_,
                    Pending<void(error_code, std::size_t)>::handler_type(std::move(handler)));
            }, token, buffers);
    }

    template <typename ConstBufferSequence, typename WriteToken>
    decltype(auto) async_write_some(const ConstBufferSequence& buffers, WriteToken&& token) {
        return asio::async_initiate<WriteToken, void(error_code, std::size_t)>(
            [this](auto handler, const ConstBufferSequence& buffers) {
                std::vector<boost::asio::const_buffer> v;
                for (auto it = boost::asio::buffer_sequence_begin(buffers); it != boost::asio::buffer_sequence_end(buffers); ++it)
                    if (boost::asio::const_buffer(*it).size()) v.push_back(*it);
                g_net->start_write(open_ ? conn_ : -1, v, ex_,
                    Pending<void(error_code, std::size_t)>::handler_type(std::move(handler)));
            }, token, buffers);
    }

    int conn_id() const { return conn_; }

protected:
    void do_close(const char* why) {
        if (conn_ >= 0 && g_net) g_net->client_close(conn_, why);
        open_ = false;
    }
    executor_type ex_;
    bool open_ = false;
    int conn_ = -1;
};

// composed write with exact bracketing of the operation (detail::async_write picks a
// member async_write when the stream has one; it delegates to the real asio::async_write)
template <typename Derived>
struct composed_write {
    template <typename ConstBufferSequence, typename WriteToken>
    decltype(auto) async_write(const ConstBufferSequence& buffers, WriteToken&& token) {
        return asio::async_initiate<WriteToken, void(error_code, std::size_t)>(
            [self = static_cast<Derived*>(this)](auto handler, const ConstBufferSequence& buffers) {
                using H = decltype(handler);
                uint64_t gid = g_net->begin_group(self->conn_id(), boost::asio::buffer_size(buffers));
                boost::asio::async_write(*self, buffers,
                    group_end_handler<H>{std::move(handler), gid, self->get_executor()});
            }, token, buffers);
    }
};

class stream : public stream_base, public composed_write<stream> {
public:
    using stream_base::stream_base;
};

// ADL async_shutdown for variant A: models a layered close (TLS close_notify /
// WebSocket close) that takes a seeded time and honours cancellation.
void start_layered_shutdown(stream& s, Pending<void(error_code)>::handler_type h);

template <typename ShutdownHandler>
void async_shutdown(stream& s, ShutdownHandler&& handler) {
    start_layered_shutdown(s, Pending<void(error_code)>::handler_type(std::forward<ShutdownHandler>(handler)));
}

} // namespace sim
