// C11 component: detail::async_mutex alone on an io_context, driven by seeded schedules
// of lock (with/without cancellation slot) / unlock / per-waiter cancel / cancel-all /
// destroy, interleaved with single poll_one() steps, against a FIFO reference model.
#include <boost/asio/bind_cancellation_slot.hpp>
#include <boost/asio/cancellation_signal.hpp>
#include <boost/asio/io_context.hpp>
#include <boost/mqtt5/detail/async_mutex.hpp>

#include <cstdio>
#include <cstdlib>
#include <deque>
#include <fstream>
#include <memory>
#include <set>
#include <sstream>
#include <string>
#include <vector>

#include "../core/rng.hpp"

extern "C" __attribute__((used)) const char* __asan_default_options() { return "exitcode=77:detect_leaks=0"; }

namespace asio = boost::asio;
using boost::mqtt5::detail::async_mutex;
using boost::system::error_code;
using sim::Rng;

// ops: L<slot 0/1, unlock_inside 0/1>  U  C<idx>  A  P<n>  D
struct Op { char k; int a; int b; };

struct Waiter {
    int id; bool has_slot; bool unlock_inside;
    int completions = 0; bool granted = false, aborted = false, cancel_emitted = false;
    // model state
    enum M { queued, grant_posted, abort_posted, done } m = queued;
};

static std::string run(const std::vector<Op>& ops) {
    asio::io_context ioc;
    auto mtx = std::make_unique<async_mutex>(ioc.get_executor());
    std::vector<std::unique_ptr<asio::cancellation_signal>> sigs;
    std::vector<std::unique_ptr<Waiter>> ws;
    std::string err;
    int holder = -1;                 // waiter whose handler ran with success and has not unlocked yet
    bool model_locked = false;       // model of _locked
    std::deque<int> model_q;         // model FIFO of queued waiters
    std::vector<int> grant_order;    // order in which successes were observed
    std::vector<int> expected_grant_order;
    bool destroyed = false;

    auto fail = [&](const std::string& e) { if (err.empty()) err = e; };

    std::function<void()> model_unlock = [&]() {
        // hand over to the next live waiter, else unlock
        if (!model_q.empty()) { int n = model_q.front(); model_q.pop_front(); ws[n]->m = Waiter::grant_posted; expected_grant_order.push_back(n); }
        else model_locked = false;
    };

    auto on_complete = [&](int id, error_code ec) {
        Waiter& w = *ws[id];
        if (++w.completions > 1) fail("waiter " + std::to_string(id) + " completed twice");
        if (!ec) {
            w.granted = true;
            if (holder >= 0) fail("waiter " + std::to_string(id) + " granted while waiter " + std::to_string(holder) + " still holds the lock");
            if (w.m != Waiter::grant_posted) fail("waiter " + std::to_string(id) + " granted although the model does not expect it (state " + std::to_string((int)w.m) + ")");
            grant_order.push_back(id);
            w.m = Waiter::done;
            holder = id;
            if (w.unlock_inside && !destroyed) { holder = -1; model_unlock(); mtx->unlock(); }
        } else {
            w.aborted = true;
            if (ec != asio::error::operation_aborted) fail("waiter " + std::to_string(id) + " completed with unexpected error");
            if (w.m != Waiter::abort_posted) fail("waiter " + std::to_string(id) + " was told cancelled although nobody cancelled it (state " + std::to_string((int)w.m) + ")");
            w.m = Waiter::done;
        }
    };

    auto model_cancel_all = [&]() {
        for (int n : model_q) ws[n]->m = Waiter::abort_posted;
        model_q.clear();
    };

    for (auto& o : ops) {
        if (!err.empty()) break;
        switch (o.k) {
        case 'L': {
            if (destroyed) break;
            int id = (int)ws.size();
            ws.push_back(std::make_unique<Waiter>());
            ws.back()->id = id; ws.back()->has_slot = o.a; ws.back()->unlock_inside = o.b;
            sigs.push_back(std::make_unique<asio::cancellation_signal>());
            if (model_locked) { model_q.push_back(id); ws[id]->m = Waiter::queued; }
            else { model_locked = true; ws[id]->m = Waiter::grant_posted; expected_grant_order.push_back(id); }
            auto h = [&, id](error_code ec) { on_complete(id, ec); };
            int before = ws[id]->completions;
            if (o.a) mtx->lock(asio::bind_cancellation_slot(sigs[id]->slot(), h));
            else mtx->lock(h);
            if (ws[id]->completions != before) fail("lock() completed from inside the initiating call");
            break;
        }
        case 'U':
            if (destroyed || holder < 0) break;
            holder = -1; model_unlock(); mtx->unlock();
            break;
        case 'C': {
            if (ws.empty()) break;
            int id = o.a % (int)ws.size();
            if (!ws[id]->has_slot) break;
            // a signal is emitted only for an operation that is still outstanding, and once: emitting again after the
            // operation completed (or after the mutex is gone) is outside what C11 states (see DESIGN.md, C11 notes)
            if (ws[id]->completions > 0 || ws[id]->cancel_emitted || destroyed) break;
            if (ws[id]->m == Waiter::abort_posted) break;
            ws[id]->cancel_emitted = true;
            // model: only a waiter that is still queued is affected
            if (ws[id]->m == Waiter::queued) {
                ws[id]->m = Waiter::abort_posted;
                for (auto it = model_q.begin(); it != model_q.end(); ++it) if (*it == id) { model_q.erase(it); break; }
            }
            sigs[id]->emit(o.b == 0 ? asio::cancellation_type::terminal : o.b == 1 ? asio::cancellation_type::partial : asio::cancellation_type::total);
            break;
        }
        case 'A':
            if (destroyed) break;
            model_cancel_all(); mtx->cancel();
            break;
        case 'P':
            for (int i = 0; i < std::max(1, o.a); ++i) { if (ioc.stopped()) ioc.restart(); if (!ioc.poll_one()) break; }
            break;
        case 'D':
            if (destroyed) break;
            destroyed = true; model_cancel_all(); mtx.reset();
            break;
        }
    }
    // end of history: release everything, drain
    for (int guard = 0; guard < 100000 && err.empty(); ++guard) {
        if (ioc.stopped()) ioc.restart();
        if (ioc.poll_one()) continue;
        if (!destroyed && holder >= 0) { holder = -1; model_unlock(); mtx->unlock(); continue; }
        if (!destroyed) { destroyed = true; model_cancel_all(); mtx.reset(); continue; }
        break;
    }
    if (!err.empty()) return err;
    for (auto& w : ws) {
        if (w->completions != 1) return "waiter " + std::to_string(w->id) + " completed " + std::to_string(w->completions) + " times";
        if (w->granted && w->aborted) return "waiter " + std::to_string(w->id) + " both granted and cancelled";
    }
    if (grant_order != expected_grant_order) {
        std::ostringstream s; s << "grant order"; for (int g : grant_order) s << " " << g; s << " != arrival order"; for (int g : expected_grant_order) s << " " << g;
        return s.str();
    }
    if (!ioc.stopped()) { ioc.restart(); if (ioc.poll_one() || !ioc.stopped()) return "io_context not out of work at the end"; }
    return {};
}

static std::vector<Op> gen(Rng& r) {
    std::vector<Op> ops;
    int n = (int)r.pick<int>({4, 8, 15, 25, 40});
    for (int i = 0; i < n; ++i) {
        auto k = r.below(100);
        if (k < 35) ops.push_back({'L', (int)r.chance(0.7), (int)r.chance(0.4)});
        else if (k < 50) ops.push_back({'U', 0, 0});
        else if (k < 65) ops.push_back({'C', (int)r.below(1000), (int)r.below(3)});
        else if (k < 70) ops.push_back({'A', 0, 0});
        else if (k < 98) ops.push_back({'P', (int)r.pick<int>({1, 1, 1, 2, 5}), 0});
        else ops.push_back({'D', 0, 0});
    }
    return ops;
}

static std::string ops_str(const std::vector<Op>& ops) {
    std::ostringstream s;
    for (auto& o : ops) s << o.k << o.a << "," << o.b << " ";
    return s.str();
}

static std::vector<Op> shrink(std::vector<Op> ops) {
    bool progress = true;
    while (progress && ops.size() > 1) {
        progress = false;
        for (size_t i = 0; i < ops.size(); ++i) {
            auto t = ops; t.erase(t.begin() + i);
            if (!run(t).empty()) { ops = t; progress = true; break; }
        }
    }
    return ops;
}

int main(int argc, char** argv) {
    if (argc >= 3 && std::string(argv[1]) == "--replay") {
        std::ifstream f(argv[2]); std::vector<Op> ops; std::string tok;
        while (f >> tok) { Op o; o.k = tok[0]; o.a = atoi(tok.c_str() + 1); auto c = tok.find(','); o.b = c == std::string::npos ? 0 : atoi(tok.c_str() + c + 1); ops.push_back(o); }
        auto e = run(ops);
        printf("%s\n", e.empty() ? "OK" : ("VIOLATION " + e).c_str());
        return e.empty() ? 0 : 1;
    }
    uint64_t seed = argc > 1 ? strtoull(argv[1], nullptr, 10) : 1;
    long n = argc > 2 ? atol(argv[2]) : 1000;
    std::string outdir = argc > 3 ? argv[3] : ".";
    std::set<uint64_t> distinct; std::string viol, sample;
    for (long i = 0; i < n; ++i) {
        Rng r = Rng::keyed(seed, "mutex", {(uint64_t)i});
        auto ops = gen(r);
        std::string s = ops_str(ops);
        if (i == 0) sample = s;
        int locks = 0; for (auto& o : ops) if (o.k == 'L') ++locks;
        if (locks >= 2) distinct.insert(sim::hash_str(s));
        auto e = run(ops);
        if (!e.empty() && viol.empty()) {
            auto m = shrink(ops);
            std::string path = outdir + "/async_mutex_seed" + std::to_string(seed) + "_" + std::to_string(i) + ".txt";
            std::ofstream(path) << ops_str(m) << "\n";
            viol = "{\"detail\":\"schedule " + ops_str(m) + ": " + run(m) + "\",\"replay\":\"" + path + "\"}";
        }
    }
    printf("{\"evidence\":{\"evaluations\":%ld,\"distinct_nontrivial\":%zu,\"samples\":[{\"schedule\":\"%s\"}]},\"violations\":[%s]}\n",
           n, distinct.size(), sample.substr(0, 300).c_str(), viol.c_str());
    return 0;
}
