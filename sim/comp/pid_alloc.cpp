// C08 component: packet_id_allocator driven directly by seeded allocate/free histories
// (arbitrary release order, fragmentation, full exhaustion, wrap) against a std::set
// model, operation by operation. Failing histories are minimised (ddmin) and written
// as replay files.
#include <boost/mqtt5/detail/control_packet.hpp>

#include <cstdio>
#include <cstdlib>
#include <fstream>
#include <set>
#include <sstream>
#include <string>
#include <vector>

#include "../core/rng.hpp"

extern "C" __attribute__((used)) const char* __asan_default_options() { return "exitcode=77:detect_leaks=0"; }

using boost::mqtt5::detail::packet_id_allocator;
using sim::Rng;

struct Op { char k; int arg; };   // 'a' allocate xN, 'f' free the (arg mod in_use)-th smallest, 'F' free the largest, 'x' exhaust (allocate until 0), 'r' free a run of arg consecutive in-use ids starting at random

// returns empty string if the history is fine
static std::string run(const std::vector<Op>& ops) {
    packet_id_allocator al;
    std::set<uint16_t> in_use;
    auto alloc1 = [&]() -> std::string {
        uint16_t p = al.allocate();
        if (p == 0) {
            if (in_use.size() != 65535) return "allocate() returned 0 with only " + std::to_string(in_use.size()) + " identifiers in use";
            return {};
        }
        if (in_use.size() == 65535) return "allocate() returned " + std::to_string(p) + " although all 65535 are in use";
        if (!in_use.insert(p).second) return "allocate() returned " + std::to_string(p) + " which is already in use";
        return {};
    };
    size_t step = 0;
    for (auto& o : ops) {
        ++step;
        std::string e;
        if (o.k == 'a') { for (int i = 0; i < o.arg && e.empty(); ++i) e = alloc1(); }
        else if (o.k == 'x') { while (in_use.size() < 65535 && e.empty()) e = alloc1(); if (e.empty()) e = alloc1(); }
        else if (o.k == 'f' || o.k == 'F') {
            if (in_use.empty()) continue;
            auto it = in_use.begin();
            if (o.k == 'F') it = std::prev(in_use.end()); else std::advance(it, (size_t)o.arg % in_use.size());
            al.free(*it); in_use.erase(it);
        } else if (o.k == 'r') {
            if (in_use.empty()) continue;
            auto it = in_use.begin(); std::advance(it, (size_t)(o.arg * 7919) % in_use.size());
            int n = 1 + o.arg % 50;
            while (n-- > 0 && it != in_use.end()) { al.free(*it); it = in_use.erase(it); }
        }
        if (!e.empty()) return "op " + std::to_string(step) + ": " + e;
    }
    // drain: everything that is free must be allocatable exactly once
    size_t free_n = 65535 - in_use.size();
    if (free_n <= 3000) {
        for (size_t i = 0; i < free_n; ++i) { auto e = alloc1(); if (!e.empty()) return "final drain: " + e; }
        auto e = alloc1(); if (!e.empty()) return "final drain: " + e;
    }
    return {};
}

static std::vector<Op> gen(Rng& r) {
    std::vector<Op> ops;
    int n = (int)r.pick<int>({3, 8, 20, 60, 200});
    bool exhaust = r.chance(0.0005);
    if (exhaust) ops.push_back({'x', 0});
    for (int i = 0; i < n; ++i) {
        auto k = r.below(100);
        if (k < 40) ops.push_back({'a', (int)r.pick<int>({1, 1, 2, 5, 20})});
        else if (k < 75) ops.push_back({'f', (int)r.below(100000)});
        else if (k < 85) ops.push_back({'F', 0});
        else if (k < 97) ops.push_back({'r', (int)r.below(100000)});
        else ops.push_back({'a', 50});
    }
    if (exhaust && r.chance(0.5)) ops.push_back({'x', 0});
    return ops;
}

static std::string ops_str(const std::vector<Op>& ops) {
    std::ostringstream s;
    for (auto& o : ops) s << o.k << o.arg << " ";
    return s.str();
}

static std::vector<Op> shrink(std::vector<Op> ops) {
    bool progress = true;
    while (progress && ops.size() > 1) {
        progress = false;
        for (size_t i = 0; i < ops.size(); ++i) {
            auto t = ops; t.erase(t.begin() + i);
            if (!run(t).empty()) { ops = t; progress = true; break; }
        }
    }
    for (auto& o : ops) while (o.arg > 0) { auto t = ops; int old = o.arg; o.arg /= 2; if (run(ops).empty()) { o.arg = old; break; } (void)t; }
    return ops;
}

int main(int argc, char** argv) {
    if (argc >= 3 && std::string(argv[1]) == "--replay") {
        std::ifstream f(argv[2]); std::vector<Op> ops; std::string tok;
        while (f >> tok) ops.push_back({tok[0], atoi(tok.c_str() + 1)});
        auto e = run(ops);
        printf("%s\n", e.empty() ? "OK" : ("VIOLATION " + e).c_str());
        return e.empty() ? 0 : 1;
    }
    uint64_t seed = argc > 1 ? strtoull(argv[1], nullptr, 10) : 1;
    long n = argc > 2 ? atol(argv[2]) : 1000;
    std::string outdir = argc > 3 ? argv[3] : ".";
    std::set<uint64_t> distinct; std::string viol; std::string sample;
    long exhaust_runs = 0;
    for (long i = 0; i < n; ++i) {
        Rng r = Rng::keyed(seed, "pid", {(uint64_t)i});
        auto ops = gen(r);
        std::string s = ops_str(ops);
        if (i == 0) sample = s;
        if (ops.size() >= 3) distinct.insert(sim::hash_str(s));
        for (auto& o : ops) if (o.k == 'x') { ++exhaust_runs; break; }
        auto e = run(ops);
        if (!e.empty() && viol.empty()) {
            auto m = shrink(ops);
            std::string path = outdir + "/pid_alloc_seed" + std::to_string(seed) + "_" + std::to_string(i) + ".txt";
            std::ofstream(path) << ops_str(m) << "\n";
            viol = "{\"detail\":\"history " + ops_str(m) + ": " + run(m) + "\",\"replay\":\"" + path + "\"}";
        }
    }
    printf("{\"evidence\":{\"evaluations\":%ld,\"distinct_nontrivial\":%zu,\"exhaustion_histories\":%ld,\"samples\":[{\"history\":\"%s\"}]},\"violations\":[%s]}\n",
           n, distinct.size(), exhaust_runs, sample.substr(0, 300).c_str(), viol.c_str());
    return 0;
}
