// C20 component: complete enumeration of 9 reason-code categories x 256 byte values
// against tables written from MQTT 5.0 (3.2.2.2, 3.4.2.1, 3.5.2.1, 3.6.2.1, 3.7.2.1,
// 3.9.3, 3.11.3, 3.14.2.1, 3.15.2.1). Built with -fsanitize=address -fno-weak so that
// the function-local static tables get internal linkage and ASan red zones: a lookup
// that leaves its table is reported (exit 77).
#include <boost/mqtt5/reason_codes.hpp>

#include <cstdio>
#include <set>
#include <string>
#include <vector>

extern "C" __attribute__((used)) const char* __asan_default_options() { return "exitcode=77:detect_leaks=0"; }

namespace m5 = boost::mqtt5;
using cat = m5::reason_codes::category;

struct Spec { const char* name; std::set<int> listed; std::set<int> server_may_send; };

static std::vector<Spec> spec() {
    std::set<int> connack{0x00,0x80,0x81,0x82,0x83,0x84,0x85,0x86,0x87,0x88,0x89,0x8a,0x8c,0x90,0x95,0x97,0x99,0x9a,0x9b,0x9c,0x9d,0x9f};
    std::set<int> puback{0x00,0x10,0x80,0x83,0x87,0x90,0x91,0x97,0x99};
    std::set<int> pubrel{0x00,0x92};
    std::set<int> suback{0x00,0x01,0x02,0x80,0x83,0x87,0x8f,0x91,0x97,0x9e,0xa1,0xa2};
    std::set<int> unsuback{0x00,0x11,0x80,0x83,0x87,0x8f,0x91};
    std::set<int> auth{0x00,0x18,0x19};
    std::set<int> auth_srv{0x00,0x18};
    std::set<int> disc{0x00,0x04,0x80,0x81,0x82,0x83,0x87,0x89,0x8b,0x8d,0x8e,0x8f,0x90,0x93,0x94,0x95,0x96,0x97,0x98,0x99,0x9a,0x9b,0x9c,0x9d,0x9e,0x9f,0xa0,0xa1,0xa2};
    std::set<int> disc_srv = disc; disc_srv.erase(0x04);
    return {
        {"connack", connack, connack}, {"puback", puback, puback}, {"pubrec", puback, puback},
        {"pubrel", pubrel, pubrel}, {"pubcomp", pubrel, pubrel}, {"suback", suback, suback},
        {"unsuback", unsuback, unsuback}, {"auth", auth, auth_srv}, {"disconnect", disc, disc_srv}};
}

template <cat C>
static std::optional<m5::reason_code> look(uint8_t b) { return m5::to_reason_code<C>(b); }

int main(int argc, char** argv) {
    (void)argc; (void)argv;
    auto sp = spec();
    using fn = std::optional<m5::reason_code> (*)(uint8_t);
    fn fns[9] = {look<cat::connack>, look<cat::puback>, look<cat::pubrec>, look<cat::pubrel>, look<cat::pubcomp>,
                 look<cat::suback>, look<cat::unsuback>, look<cat::auth>, look<cat::disconnect>};
    std::string viol; int nviol = 0; int accepted = 0, rejected = 0;
    for (int c = 0; c < 9; ++c) {
        for (int b = 0; b < 256; ++b) {
            fprintf(stderr, "LOOKUP %s 0x%02x\n", sp[c].name, b);   // the last line before an ASan report names the pair
            auto r = fns[c]((uint8_t)b);
            bool acc = r.has_value();
            if (acc) ++accepted; else ++rejected;
            std::string problem;
            if (acc && !sp[c].listed.count(b)) problem = "accepted although MQTT 5 does not list it";
            if (!acc && sp[c].server_may_send.count(b)) problem = "rejected although a Server may send it";
            if (acc && r->value() != b) problem = "accepted but reported as " + std::to_string(r->value());
            if (!problem.empty()) {
                char buf[160]; snprintf(buf, sizeof buf, "%s 0x%02x %s", sp[c].name, b, problem.c_str());
                if (nviol++ < 5) viol += std::string(viol.empty() ? "" : "; ") + buf;
            }
        }
    }
    printf("{\"evidence\":{\"evaluations\":2304,\"distinct_nontrivial\":2304,\"exhaustive\":true,\"accepted\":%d,\"rejected\":%d,"
           "\"samples\":[{\"category\":\"puback\",\"byte\":\"0xff\",\"expect\":\"rejected, lookup stays inside the table\"},{\"category\":\"disconnect\",\"byte\":\"0x8e\",\"expect\":\"accepted as 0x8e\"}]},"
           "\"violations\":[", accepted, rejected);
    if (nviol) printf("{\"detail\":\"%d (category, byte) pairs wrong: %s\",\"replay\":\"build/comp_rc_table\"}", nviol, viol.c_str());
    printf("]}\n");
    return 0;
}
