// Variant B of the real client: StreamType = asio::basic_stream_socket<sim::proto, any_io_executor>
// (explicit specialisation; takes the client's is_basic_socket paths).
#include <boost/asio.hpp>
#include "net/socket_b.hpp"
#define SIM_STREAM_TYPE ::sim::socket_b
#define SIM_MAKE_FN make_client_B
#define SIM_MAKE_MINI_FN make_mini_B
#include "client_impl.inc"
